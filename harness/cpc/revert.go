package cpc

import (
	"bufio"
	"bytes"
	"encoding/json"
	"fmt"
	"math/big"
	"math/rand"
	"os"

	"github.com/ethereum/go-ethereum/common"

	cpcabi "github.com/EscanBE/evermint/v12/x/cpc/abi"

	"verifharness/asm"
	"verifharness/chain"
	"verifharness/obs"
	"verifharness/trace"
)

// C03 (precompile part): vectors of spec/RevertTree.tla executed against the real application.
//
// Frames are forwarding contracts driven by their call data; after the inner call returned (its
// failure is NOT bubbled) a frame completes or fails in the way its mode word says.

// Modes of a frame.
var revertModes = map[string]int64{"ok": 0, "revert": 1, "invalid": 2, "oog": 3}

// modeTail appends: switch calldataload(modeOff) { 1: REVERT(0,0); 2: INVALID; 3: loop until out of gas; default: STOP }.
func modeTail(code []byte, modeOff byte) []byte {
	const EQ, JUMP = 0x14, asm.JUMP
	base := len(code)
	// three tests of 9 bytes each, then STOP
	lRev := base + 3*9 + 1
	lInv := lRev + 6
	lLoop := lInv + 2
	for i, l := range []int{lRev, lInv, lLoop} {
		code = append(code, asm.PUSH1, byte(i+1), asm.PUSH1, modeOff, asm.CALLDATALOAD, EQ, asm.PUSH1, byte(l), asm.JUMPI)
	}
	code = append(code, asm.STOP)
	if len(code) != lRev {
		panic("modeTail: label arithmetic (rev)")
	}
	code = append(code, asm.JUMPDEST, asm.PUSH1, 0, asm.PUSH1, 0, asm.REVERT)
	if len(code) != lInv {
		panic("modeTail: label arithmetic (inv)")
	}
	code = append(code, asm.JUMPDEST, asm.INVALID)
	if len(code) != lLoop {
		panic("modeTail: label arithmetic (loop)")
	}
	code = append(code, asm.JUMPDEST, asm.PUSH1, byte(lLoop), JUMP)
	if len(code) > 255 {
		panic("modeTail: code too long for PUSH1 labels")
	}
	return code
}

// RevertFrame is the code of a frame of kind `kind`.
// call data = [target][gas for the inner call][mode of this frame][payload for the target].
func RevertFrame(kind string) []byte {
	const SUB = 0x03
	c := []byte{}
	// n = calldatasize - 96 ; calldatacopy(0, 96, n)
	c = append(c, asm.PUSH1, 96, asm.CALLDATASIZE, SUB, asm.DUP1, asm.PUSH1, 96, asm.PUSH1, 0, asm.CALLDATACOPY)
	// <kind>(calldataload(32), calldataload(0), [0,] 0, n, 0, 0) ; pop the success flag (no bubbling)
	c = append(c, asm.PUSH1, 0, asm.PUSH1, 0, 0x82 /*DUP3*/, asm.PUSH1, 0)
	if kind == KCall || kind == KCallCode {
		c = append(c, asm.PUSH1, 0)
	}
	c = append(c, asm.PUSH1, 0, asm.CALLDATALOAD, asm.PUSH1, 32, asm.CALLDATALOAD, kindOp(kind), asm.POP)
	return modeTail(c, 64)
}

// RevertSiblings is the code of the frame that makes two calls.
// call data = [mode][gas 1][len 1][target 1][payload 1 (len 1 bytes)][gas 2][target 2][payload 2].
func RevertSiblings() []byte {
	const SUB, DUP3, DUP8, DUP9 = 0x03, 0x82, 0x87, 0x88
	c := []byte{}
	// first call: CALL(cdl(32), cdl(96), 0, 0, len1, 0, 0) with payload copied from offset 128
	c = append(c, asm.PUSH1, 64, asm.CALLDATALOAD, asm.DUP1, asm.PUSH1, 128, asm.PUSH1, 0, asm.CALLDATACOPY)
	c = append(c, asm.PUSH1, 0, asm.PUSH1, 0, DUP3, asm.PUSH1, 0, asm.PUSH1, 0, asm.PUSH1, 96, asm.CALLDATALOAD, asm.PUSH1, 32, asm.CALLDATALOAD, asm.CALL, asm.POP)
	// off2 = len1 + 128 ; p = off2 + 64 ; n2 = calldatasize - p ; calldatacopy(0, p, n2)
	c = append(c, asm.PUSH1, 128, asm.ADD, asm.DUP1, asm.PUSH1, 64, asm.ADD, asm.DUP1, asm.CALLDATASIZE, SUB)
	c = append(c, asm.DUP1, DUP3, asm.PUSH1, 0, asm.CALLDATACOPY)
	// second call: CALL(cdl(off2), cdl(off2+32), 0, 0, n2, 0, 0)
	c = append(c, asm.PUSH1, 0, asm.PUSH1, 0, DUP3, asm.PUSH1, 0, asm.PUSH1, 0, DUP8, asm.PUSH1, 32, asm.ADD, asm.CALLDATALOAD, DUP9, asm.CALLDATALOAD, asm.CALL, asm.POP)
	return modeTail(c, 0)
}

// RevertThree is the code of a top frame that makes three calls in a row and returns what they returned.
// call data = three descriptors [gas][target][len][payload (len bytes)]; return data = for each call the success
// flag and the first 32 bytes it returned ([s1][r1][s2][r2][s3][r3]).  It never fails itself.
func RevertThree() []byte {
	const DUP3, DUP7, DUP8, PUSH2 = 0x82, 0x86, 0x87, 0x61
	c := []byte{asm.PUSH1, 0} // offset of the first descriptor
	for i := 0; i < 3; i++ {
		flagOff := 0x400 + 64*i
		outOff := flagOff + 32
		c = append(c, asm.DUP1, asm.PUSH1, 64, asm.ADD, asm.CALLDATALOAD)                                    // [off, len]
		c = append(c, asm.DUP1, DUP3, asm.PUSH1, 96, asm.ADD, asm.PUSH1, 0, asm.CALLDATACOPY)                // payload -> memory 0
		c = append(c, asm.PUSH1, 32, PUSH2, byte(outOff>>8), byte(outOff), DUP3, asm.PUSH1, 0, asm.PUSH1, 0) // out 32 @outOff, in len @0, value 0
		c = append(c, DUP7, asm.PUSH1, 32, asm.ADD, asm.CALLDATALOAD, DUP8, asm.CALLDATALOAD, asm.CALL)
		c = append(c, PUSH2, byte(flagOff>>8), byte(flagOff), asm.MSTORE) // success flag
		c = append(c, asm.ADD, asm.PUSH1, 96, asm.ADD)                    // next descriptor
	}
	return append(c, asm.PUSH1, 192, PUSH2, 0x04, 0x00, asm.RETURN)
}

// RvVector is one vector of RevertTree.tla.
type RvVector struct {
	ID      int      `json:"id"`
	Shape   string   `json:"shape"`
	Kinds   []string `json:"kinds"`
	Modes   []string `json:"modes"`
	Methods []string `json:"methods"`
}

// RvKinds are the call kinds of C03 frames.
var RvKinds = []string{KCall, KDelegateCall, KCallCode}

const (
	rvLeafGas  = 600_000
	rvFrameGas = 400_000
)

type rvLeaf struct {
	target common.Address
	data   []byte
	probe  func() bool // after the block: is exactly this leaf's effect there?
}

func u(n int64) []byte { return Word(big.NewInt(n)) }

// rvLeafFor builds the call and the effect probe of leaf j (1 or 2) of a vector, issued by caller x.
func (w *CtWorld) rvLeafFor(method string, j int, x *chain.Acct) rvLeaf {
	c := w.C
	w.nonce++
	recv := common.BigToAddress(big.NewInt(0xabcd00 + int64(j)))
	amt := int64(5 + 2*j)
	bond := func() *big.Int {
		b, err := c.App.StakingKeeper.GetDelegatorBonded(c.Ctx(), x.Acc())
		if err != nil {
			panic(err)
		}
		return b.BigInt()
	}
	deleg := func(val int) *big.Int {
		d, err := c.App.StakingKeeper.GetDelegation(c.Ctx(), x.Acc(), c.Vals[val].OpAddr)
		if err != nil {
			return new(big.Int)
		}
		return d.Shares.TruncateInt().BigInt()
	}
	delta := func(read func() *big.Int, want int64) func() bool {
		before := read()
		return func() bool { return new(big.Int).Sub(read(), before).Cmp(big.NewInt(want)) == 0 }
	}
	ab := cpcabi.StakingCpcInfo.ABI
	switch method {
	case "erc20.transfer":
		return rvLeaf{w.Erc20, Enc("transfer(address,uint256)", AddrWord(recv), u(amt)), delta(func() *big.Int { return c.Bal(recv, chain.Denom) }, amt)}
	case "erc20.transferFrom":
		return rvLeaf{w.Erc20, Enc("transferFrom(address,address,uint256)", AddrWord(w.Owner.Addr), AddrWord(recv), u(amt)), delta(func() *big.Int { return c.Bal(recv, chain.Denom) }, amt)}
	case "erc20.approve":
		val := 1000 + w.nonce
		return rvLeaf{w.Erc20, Enc("approve(address,uint256)", AddrWord(recv), u(val)), func() bool {
			return c.App.CPCKeeper.GetErc20CpcAllowance(c.Ctx(), x.Addr, recv).Cmp(big.NewInt(val)) == 0
		}}
	case "erc20.burn":
		return rvLeaf{w.Erc20, Enc("burn(uint256)", u(amt)), delta(func() *big.Int { return c.Supply(chain.Denom) }, -amt)}
	case "erc20.burnFrom":
		return rvLeaf{w.Erc20, Enc("burnFrom(address,uint256)", AddrWord(w.Owner.Addr), u(amt)), delta(func() *big.Int { return c.Supply(chain.Denom) }, -amt)}
	case "staking.delegate":
		return rvLeaf{w.Staking, pack(ab, "delegate", w.Val[0], big.NewInt(amt)), delta(bond, amt)}
	case "staking.undelegate":
		return rvLeaf{w.Staking, pack(ab, "undelegate", w.Val[0], big.NewInt(amt)), delta(bond, -amt)}
	case "staking.redelegate":
		return rvLeaf{w.Staking, pack(ab, "redelegate", w.Val[0], w.Val[1], big.NewInt(amt)), delta(func() *big.Int { return deleg(1) }, amt)}
	}
	panic("no C03 leaf for method " + method)
}

// rvCtx: the address the precompile sees as caller for a path (only CALL opens a new context).
func (w *CtWorld) rvCtx(kinds []string) *chain.Acct {
	j := 0
	for i := 1; i < len(kinds); i++ {
		if kinds[i-1] == KCall {
			j = i
		}
	}
	return w.Fwd[j][kinds[j]]
}

var rvTopics = map[common.Hash]string{
	topicTransfer: "Transfer",
	topicApproval: "Approval",
	common.HexToHash("0x510b11bb3f3c799b11307c01ab7db0d335683ef5b2da98f7697de744f465eacc"): "Delegate",
	common.HexToHash("0xbda8c0e95802a0e6788c3e9027292382d5a41b86556015f846b03a9874b2b827"): "Undelegate",
	common.HexToHash("0xad71f93891cecc86a28a627d5495c28fabbd31cdd2e93851b16ce3421fdab2e5"): "WithdrawReward",
}

// RunRevertVector executes one vector as a real transaction in its own block.
func (w *CtWorld) RunRevertVector(v RvVector, pre map[string]string) (trace.M, map[string]string) {
	mode := func(i int) []byte {
		m, ok := revertModes[v.Modes[i]]
		if !ok {
			panic("unknown mode " + v.Modes[i])
		}
		return u(m)
	}
	var to common.Address
	var data []byte
	var leaves []rvLeaf
	var txGas uint64
	var callers []string
	switch v.Shape {
	case "path":
		d := len(v.Kinds)
		x := w.rvCtx(v.Kinds)
		lf := w.rvLeafFor(v.Methods[0], 1, x)
		leaves = []rvLeaf{lf}
		callers = []string{x.Name}
		// innermost first: frame d-1 calls the precompile
		payload := lf.data
		target := lf.target
		gas := int64(rvLeafGas)
		for i := d - 1; i >= 0; i-- {
			payload = append(append(append(AddrWord(target), u(gas)...), mode(i)...), payload...)
			target = w.Fwd[i][v.Kinds[i]].Addr
			gas = rvLeafGas + rvFrameGas*int64(d-i)
		}
		to, data = target, payload
		txGas = uint64(rvLeafGas + rvFrameGas*int64(d) + 150_000)
	case "siblings":
		root := w.Extra["two"]
		sub := w.Fwd[1][v.Kinds[0]]
		l1 := w.rvLeafFor(v.Methods[0], 1, sub)
		l2 := w.rvLeafFor(v.Methods[1], 2, root)
		leaves = []rvLeaf{l1, l2}
		callers = []string{sub.Name, root.Name}
		p1 := append(append(append(AddrWord(l1.target), u(rvLeafGas)...), mode(1)...), l1.data...)
		data = append(append(append(append(mode(0), u(rvLeafGas+rvFrameGas)...), u(int64(len(p1)))...), AddrWord(sub.Addr)...), p1...)
		data = append(append(append(data, u(rvLeafGas)...), AddrWord(l2.target)...), l2.data...)
		to = root.Addr
		txGas = uint64(2*rvLeafGas + 2*rvFrameGas + 150_000)
	case "memo":
		return w.runMemoVector(v, pre)
	default:
		panic("unknown vector shape " + v.Shape)
	}
	obs.Drain()
	r := SendEth(w.C, w.Sender, to, data, txGas)
	frames, leafExit := rvObserved(v.Shape, obs.Drain())
	if r.Panic != nil {
		panic(fmt.Sprintf("vector %d: block panicked: %v", v.ID, r.Panic))
	}
	if !r.Admitted {
		panic(fmt.Sprintf("vector %d: transaction not admitted: code %d %s", v.ID, r.Code, r.Log))
	}
	post := w.Dump()
	d := Diff(pre, post)
	sample := d
	if len(sample) > 5 {
		sample = sample[:5]
	}
	effects := []bool{}
	for _, l := range leaves {
		effects = append(effects, l.probe())
	}
	logs := []string{}
	for _, lg := range r.Logs {
		k := "other"
		if len(lg.Topics) > 0 {
			if n, ok := rvTopics[lg.Topics[0]]; ok {
				k = n
			}
		}
		logs = append(logs, k)
	}
	st := int64(0)
	if r.HasRcpt && r.Status == 1 {
		st = 1
	}
	return trace.M{"ev": "Vector", "id": v.ID, "shape": v.Shape, "kinds": v.Kinds, "modes": v.Modes, "methods": v.Methods, "callers": callers,
		"status": st, "changed": len(d) > 0, "nchanged": len(d), "effects": effects, "logs": logs, "gasUsed": r.GasUsed, "frames": frames, "leafExit": leafExit,
		"vmError": trunc(r.VmError, 60), "sample": append([]string{}, sample...)}, post
}

// RunRevertTree executes the vectors of this shard in an order shuffled by seed.
func RunRevertTree(out *trace.W, vectorsPath string, seed int64, shard, shards int) map[string]int {
	stats := map[string]int{}
	f, err := os.Open(vectorsPath)
	if err != nil {
		panic(err)
	}
	defer f.Close()
	var vs []RvVector
	depth := 3
	sc := bufio.NewScanner(f)
	sc.Buffer(make([]byte, 1<<20), 1<<26)
	for sc.Scan() {
		if len(bytes.TrimSpace(sc.Bytes())) == 0 {
			continue
		}
		var v RvVector
		if err := json.Unmarshal(sc.Bytes(), &v); err != nil {
			panic(fmt.Sprintf("bad vector line: %v: %s", err, sc.Text()))
		}
		if len(v.Modes) > depth {
			depth = len(v.Modes)
		}
		if shards > 1 && v.ID%shards != shard {
			continue
		}
		vs = append(vs, v)
	}
	rand.New(rand.NewSource(seed*977+int64(shard))).Shuffle(len(vs), func(i, j int) { vs[i], vs[j] = vs[j], vs[i] })
	obs.Install()
	w := NewCtWorldWith(depth, RvKinds, RevertFrame, map[string][]byte{"two": RevertSiblings(), "three": RevertThree()})
	pre := w.Dump()
	for _, v := range vs {
		ev, post := w.RunRevertVector(v, pre)
		out.Emit(ev)
		pre = post
		if ev["changed"].(bool) {
			w.Settle()
			pre = w.Dump()
			stats["changed"]++
		}
		stats["vectors"]++
	}
	return stats
}

func rvExit(f *obs.Frame) string {
	switch {
	case f.Err == "":
		return "ok"
	case f.Err == "revert" || f.Err == "oog":
		return f.Err
	case len(f.Err) > 6 && f.Err[:6] == "other:" && bytes.Contains([]byte(f.Err), []byte("invalid opcode")):
		return "invalid"
	}
	return f.Err
}

// rvObserved reads the frame tree the EVM actually executed (hook H1): the exit of every forwarding
// frame in vector order and the exit of every leaf call (a vector proves something only if the leaf
// succeeded and the frames failed the way they were generated to).
func rvObserved(shape string, execs []*obs.Exec) (frames []string, leaves []string) {
	frames, leaves = []string{}, []string{}
	var root *obs.Frame
	for _, e := range execs {
		if e.Mode == "deliver" && e.Root != nil {
			root = e.Root
		}
	}
	if root == nil {
		return
	}
	if shape == "siblings" {
		frames = append(frames, rvExit(root))
		if len(root.Children) == 2 {
			sub := root.Children[0]
			frames = append(frames, rvExit(sub))
			if len(sub.Children) == 1 {
				leaves = append(leaves, rvExit(sub.Children[0]))
			}
			leaves = append(leaves, rvExit(root.Children[1]))
		}
		return
	}
	f := root
	for {
		if len(f.Children) != 1 {
			// f is the leaf call (no children)
			leaves = append(leaves, rvExit(f))
			return
		}
		frames = append(frames, rvExit(f))
		f = f.Children[0]
	}
}

// runMemoVector: shape "memo" of RevertTree.tla.  ONE transaction, three calls of the top frame:
//
//	kinds[0] = "approve": (1) a chain of CALL frames (modes = v.Modes, at most one "revert") whose last frame - the owner -
//	          calls approve(top frame, n); (2) allowance(owner, top frame); (3) the top frame itself calls
//	          transferFrom / burnFrom (methods[0]) for an amount only the new allowance covers.
//	kinds[0] = "spent":   (1) the chain's last frame - a spender with a large allowance from the Owner EOA - spends a and the
//	          chain possibly reverts; (2) allowance(Owner, spender); (3) the same chain, all frames completing, spends b.
func (w *CtWorld) runMemoVector(v RvVector, pre map[string]string) (trace.M, map[string]string) {
	c := w.C
	d := len(v.Modes)
	top := w.Extra["three"]
	last := w.Fwd[d][KCall] // chain frames are Fwd[1..d][CALL]
	recv := common.BigToAddress(big.NewInt(0xabcd10))
	chain_ := func(modes []string, leaf []byte) (common.Address, int64, []byte) {
		payload, target, gas := leaf, w.Erc20, int64(rvLeafGas)
		for i := d; i >= 1; i-- {
			payload = append(append(append(AddrWord(target), u(gas)...), u(revertModes[modes[i-1]])...), payload...)
			target = w.Fwd[i][KCall].Addr
			gas = rvLeafGas + rvFrameGas*int64(d-i+1)
		}
		return target, gas, payload
	}
	desc := func(target common.Address, gas int64, payload []byte) []byte {
		return append(append(append(u(gas), AddrWord(target)...), u(int64(len(payload)))...), payload...)
	}
	spend := func(owner common.Address, amt int64) []byte {
		if v.Methods[0] == "burnFrom" {
			return Enc("burnFrom(address,uint256)", AddrWord(owner), u(amt))
		}
		return Enc("transferFrom(address,address,uint256)", AddrWord(owner), AddrWord(recv), u(amt))
	}
	quantity := func() *big.Int {
		if v.Methods[0] == "burnFrom" {
			return new(big.Int).Neg(c.Supply(chain.Denom))
		}
		return c.Bal(recv, chain.Denom)
	}
	allOk := make([]string, d)
	for i := range allOk {
		allOk[i] = "ok"
	}
	var owner, spender common.Address
	var data []byte
	var n, a, b int64
	switch v.Kinds[0] {
	case "approve":
		owner, spender = last.Addr, top.Addr
	case "spent":
		owner, spender = w.Owner.Addr, last.Addr
	default:
		panic("unknown memo case " + v.Kinds[0])
	}
	allowance := func() *big.Int { return c.App.CPCKeeper.GetErc20CpcAllowance(c.Ctx(), owner, spender) }
	pre0 := allowance()
	view := Enc("allowance(address,address)", AddrWord(owner), AddrWord(spender))
	if v.Kinds[0] == "approve" {
		n, a = pre0.Int64()+10, pre0.Int64()+5
		t1, g1, p1 := chain_(v.Modes, Enc("approve(address,uint256)", AddrWord(spender), u(n)))
		data = append(append(desc(t1, g1, p1), desc(w.Erc20, rvLeafGas, view)...), desc(w.Erc20, rvLeafGas, spend(owner, a))...)
	} else {
		a, b = 3, 4
		t1, g1, p1 := chain_(v.Modes, spend(owner, a))
		t3, g3, p3 := chain_(allOk, spend(owner, b))
		data = append(append(desc(t1, g1, p1), desc(w.Erc20, rvLeafGas, view)...), desc(t3, g3, p3)...)
	}
	q0 := quantity()
	r := SendEth(c, w.Sender, top.Addr, data, uint64(2*(rvLeafGas+rvFrameGas*int64(d))+rvLeafGas+300_000))
	if r.Panic != nil || !r.Admitted {
		panic(fmt.Sprintf("vector %d: block failed or transaction not admitted: %v %d %s", v.ID, r.Panic, r.Code, r.Log))
	}
	post := w.Dump()
	df := Diff(pre, post)
	flags, viewVal := []int64{-1, -1, -1}, int64(-1)
	if len(r.Ret) == 192 {
		for i := 0; i < 3; i++ {
			flags[i] = new(big.Int).SetBytes(r.Ret[64*i : 64*i+32]).Int64()
		}
		viewVal = trace.I(new(big.Int).SetBytes(r.Ret[96:128]))
	}
	logs := []string{}
	for _, lg := range r.Logs {
		k := "other"
		if len(lg.Topics) > 0 {
			if nm, ok := rvTopics[lg.Topics[0]]; ok {
				k = nm
			}
		}
		logs = append(logs, k)
	}
	st := int64(0)
	if r.HasRcpt && r.Status == 1 {
		st = 1
	}
	sample := df
	if len(sample) > 5 {
		sample = sample[:5]
	}
	return trace.M{"ev": "Vector", "id": v.ID, "shape": v.Shape, "kinds": v.Kinds, "modes": v.Modes, "methods": v.Methods,
		"callers": []string{last.Name, top.Name}, "status": st, "changed": len(df) > 0, "nchanged": len(df), "effects": []bool{}, "logs": logs,
		"gasUsed": r.GasUsed, "frames": []string{}, "leafExit": []string{}, "vmError": trunc(r.VmError, 60), "sample": append([]string{}, sample...),
		"pre": trace.I(pre0), "n": n, "a": a, "b": b, "flags": flags, "view": viewVal, "final": trace.I(allowance()),
		"moved": trace.I(new(big.Int).Sub(quantity(), q0))}, post
}
