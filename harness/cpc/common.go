// Package cpc holds the drivers of the custom-precompile family of checks:
// C10 (ERC-20 precompile = exact view of one bank denomination, Erc20Cpc.tla) and
// C12 (read-only EVM contexts cannot write through custom precompiles, CallTree.tla).
//
// Everything here talks to the real application only through ABCI blocks, the public keepers
// and the EthCall query; call data is encoded by hand (selector + 32-byte words) so that the
// ABI package of the repository is not part of the oracle.
package cpc

import (
	"encoding/json"
	"fmt"
	"math/big"
	"strconv"

	abci "github.com/cometbft/cometbft/abci/types"
	sdk "github.com/cosmos/cosmos-sdk/types"
	"github.com/cosmos/gogoproto/proto"
	"github.com/ethereum/go-ethereum/common"
	"github.com/ethereum/go-ethereum/common/hexutil"
	ethtypes "github.com/ethereum/go-ethereum/core/types"
	"github.com/ethereum/go-ethereum/crypto"

	evmtypes "github.com/EscanBE/evermint/v12/x/evm/types"

	"verifharness/asm"
	"verifharness/chain"
)

// Call kinds.
const (
	KCall         = "CALL"
	KCallCode     = "CALLCODE"
	KDelegateCall = "DELEGATECALL"
	KStaticCall   = "STATICCALL"
)

// Kinds in a fixed order.
var Kinds = []string{KCall, KCallCode, KDelegateCall, KStaticCall}

func kindOp(kind string) byte {
	switch kind {
	case KCall:
		return asm.CALL
	case KCallCode:
		return asm.CALLCODE
	case KDelegateCall:
		return asm.DELEGATECALL
	case KStaticCall:
		return asm.STATICCALL
	}
	panic("unknown call kind " + kind)
}

// Forwarder returns the runtime code of a forwarding contract of the given call kind.
//
// call data = [32-byte word: next target address][payload]; the contract copies the payload to
// memory, <kind>s the target with all gas and value 0, and returns the callee's return data
// (callee succeeded) or reverts with it (callee failed).  Chains of forwarders are built by
// nesting: [F2][F3][precompile][precompile call data] sent to F1.
func Forwarder(kind string) []byte {
	a := asm.New()
	// n = calldatasize - 32 ; calldatacopy(0, 32, n)
	a.Op(asm.PUSH1, 32, asm.CALLDATASIZE, 0x03 /*SUB*/)
	a.Op(asm.DUP1, asm.PUSH1, 32, asm.PUSH1, 0, asm.CALLDATACOPY)
	// <kind>(gas, target, [0,] 0, n, 0, 0)
	a.Op(asm.PUSH1, 0, asm.PUSH1, 0, 0x82 /*DUP3*/, asm.PUSH1, 0)
	if kind == KCall || kind == KCallCode {
		a.Op(asm.PUSH1, 0)
	}
	a.Op(asm.PUSH1, 0, asm.CALLDATALOAD, asm.GAS, kindOp(kind))
	// returndatacopy(0, 0, returndatasize)
	a.Op(asm.RETURNDATASIZE, asm.PUSH1, 0, asm.PUSH1, 0, asm.RETURNDATACOPY)
	// if success goto ok
	okAt := len(a.B) + 3 + 4
	a.Op(asm.PUSH1, byte(okAt), asm.JUMPI)
	a.Op(asm.RETURNDATASIZE, asm.PUSH1, 0, asm.REVERT)
	if len(a.B) != okAt {
		panic("forwarder: label arithmetic")
	}
	a.Op(asm.JUMPDEST, asm.RETURNDATASIZE, asm.PUSH1, 0, asm.RETURN)
	return a.B
}

// Word is a 32-byte big-endian word.
func Word(b *big.Int) []byte { return common.LeftPadBytes(b.Bytes(), 32) }

// AddrWord is an address as an ABI word.
func AddrWord(a common.Address) []byte { return common.LeftPadBytes(a.Bytes(), 32) }

// Sel computes a 4-byte selector from a canonical signature.
func Sel(sig string) []byte { return crypto.Keccak256([]byte(sig))[:4] }

// Enc is selector + static words.
func Enc(sig string, words ...[]byte) []byte {
	out := append([]byte{}, Sel(sig)...)
	for _, w := range words {
		if len(w) != 32 {
			panic("enc: word length")
		}
		out = append(out, w...)
	}
	return out
}

// Route prefixes payload with the hop addresses (the first hop is the tx's `to`, not included).
func Route(hops []common.Address, payload []byte) []byte {
	var out []byte
	for _, h := range hops {
		out = append(out, AddrWord(h)...)
	}
	return append(out, payload...)
}

// Big constants.
var (
	MaxU256 = new(big.Int).Sub(new(big.Int).Lsh(big.NewInt(1), 256), big.NewInt(1))
	Half256 = new(big.Int).Lsh(big.NewInt(1), 255)
)

// TxOut is what one delivered Ethereum transaction showed.
type TxOut struct {
	Admitted bool // passed the ante handler (nonce advanced)
	Code     uint32
	Log      string
	GasUsed  int64
	Status   uint64 // receipt status (0 when there is no receipt)
	HasRcpt  bool
	Ret      []byte
	VmError  string
	Logs     []*ethtypes.Log
	EvmGas   int64 // gas used according to the receipt event (before the minimum-gas rule of the fee market)
	Panic    interface{}
}

// DecodeEth extracts receipt, return data and VM error from a tx result.
func DecodeEth(res *abci.ExecTxResult) (out TxOut) {
	out.Code = res.Code
	out.Log = res.Log
	out.GasUsed = res.GasUsed
	for _, ev := range res.Events {
		if ev.Type != evmtypes.EventTypeTxReceipt {
			continue
		}
		for _, a := range ev.Attributes {
			if a.Key == evmtypes.AttributeKeyReceiptGasUsed {
				n, _ := strconv.ParseInt(a.Value, 10, 64)
				out.EvmGas = n
			}
			if a.Key == evmtypes.AttributeKeyReceiptMarshalled {
				rc := &ethtypes.Receipt{}
				if err := rc.UnmarshalBinary(hexutil.MustDecode(a.Value)); err != nil {
					panic(err)
				}
				out.HasRcpt = true
				out.Status = rc.Status
				out.Logs = rc.Logs
			}
		}
	}
	if len(res.Data) > 0 {
		var md sdk.TxMsgData
		if err := proto.Unmarshal(res.Data, &md); err == nil {
			for _, r := range md.MsgResponses {
				var er evmtypes.MsgEthereumTxResponse
				if err := proto.Unmarshal(r.Value, &er); err == nil {
					out.Ret = er.Ret
					out.VmError = er.VmError
				}
			}
		}
	}
	return out
}

// GasPrice of every harness transaction (legacy price >= genesis base fee; the base fee only decays).
const GasPrice = 10

// SendEth delivers one block holding one legacy Ethereum transaction from `from` to `to`.
func SendEth(c *chain.Chain, from *chain.Acct, to common.Address, data []byte, gas uint64) TxOut {
	n0 := c.Seq(from.Addr)
	bz := c.EthTx(from, &ethtypes.LegacyTx{Nonce: n0, GasPrice: big.NewInt(GasPrice), Gas: gas, To: &to, Value: new(big.Int), Data: data})
	bo := c.Deliver(bz)
	if bo.Panic != nil || bo.Err != nil {
		return TxOut{Panic: fmt.Sprint(bo.Panic, bo.Err)}
	}
	out := DecodeEth(bo.Res.TxResults[0])
	out.Admitted = c.Seq(from.Addr) == n0+1
	return out
}

// SendCosmos delivers one block holding one Cosmos-lane transaction.
func SendCosmos(c *chain.Chain, from *chain.Acct, gas uint64, msgs ...sdk.Msg) (res *abci.ExecTxResult, admitted bool, err error) {
	n0 := c.Seq(from.Addr)
	bz, err := c.CosmosTx(from, msgs, chain.CosmosTxOpts{Gas: gas, GasPrice: GasPrice})
	if err != nil {
		return nil, false, err
	}
	bo := c.Deliver(bz)
	if bo.Panic != nil || bo.Err != nil {
		return nil, false, fmt.Errorf("block failed: %v %v", bo.Panic, bo.Err)
	}
	return bo.Res.TxResults[0], c.Seq(from.Addr) == n0+1, nil
}

// EthCall runs the keeper's EthCall query (eth_call) on the committed state.
func EthCall(c *chain.Chain, from, to common.Address, data []byte) (ret []byte, vmErr string, err error) {
	hd := hexutil.Bytes(data)
	gas := hexutil.Uint64(20_000_000)
	args := evmtypes.TransactionArgs{From: &from, To: &to, Data: &hd, Gas: &gas}
	bz, err := json.Marshal(args)
	if err != nil {
		return nil, "", err
	}
	res, err := c.App.EvmKeeper.EthCall(c.Ctx(), &evmtypes.EthCallRequest{Args: bz, GasCap: 25_000_000})
	if err != nil {
		return nil, "", err
	}
	return res.Ret, res.VmError, nil
}
