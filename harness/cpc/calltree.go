package cpc

import (
	"bufio"
	"bytes"
	"encoding/hex"
	"encoding/json"
	"fmt"
	"math/big"
	"os"
	"sort"
	"time"

	sdkmath "cosmossdk.io/math"
	sdk "github.com/cosmos/cosmos-sdk/types"
	authtypes "github.com/cosmos/cosmos-sdk/x/auth/types"
	banktypes "github.com/cosmos/cosmos-sdk/x/bank/types"
	distrtypes "github.com/cosmos/cosmos-sdk/x/distribution/types"
	stakingtypes "github.com/cosmos/cosmos-sdk/x/staking/types"
	"github.com/ethereum/go-ethereum/accounts/abi"
	"github.com/ethereum/go-ethereum/common"
	"github.com/ethereum/go-ethereum/crypto"

	chainapp "github.com/EscanBE/evermint/v12/app"
	"github.com/EscanBE/evermint/v12/app/params"
	cpcabi "github.com/EscanBE/evermint/v12/x/cpc/abi"
	"github.com/EscanBE/evermint/v12/x/cpc/eip712"
	cpctypes "github.com/EscanBE/evermint/v12/x/cpc/types"
	evmtypes "github.com/EscanBE/evermint/v12/x/evm/types"

	"verifharness/chain"
	"verifharness/trace"
)

// Method is one registered method of a custom precompile as the real executors declare it.
type Method struct {
	Cpc     string `json:"cpc"`  // erc20 | staking | bech32
	Name    string `json:"name"` // from the ABI of the repository, by selector
	Sel     string `json:"sel"`  // 4-byte selector, hex
	Ro      bool   `json:"ro"`   // executor.ReadOnly()
	Gas     int64  `json:"gas"`  // executor.RequireGas()
	AbiView bool   `json:"abiView"`
	Addr    string `json:"addr"`
}

// CtWorld is the chain of the call-tree vectors.
type CtWorld struct {
	C          *chain.Chain
	Fwd        []map[string]*chain.Acct // level -> kind -> forwarding contract (installed at a keyed address)
	Sender     *chain.Acct
	Owner      *chain.Acct // an EOA that approved every forwarder on the ERC-20 precompile
	Recv       common.Address
	Erc20      common.Address
	Erc20B     common.Address // ERC-20 precompile of the non-EVM denomination (its read-only methods are vector targets)
	Foreign    bool
	Staking    common.Address
	Bech32     common.Address
	Val        [2]common.Address
	ValStr     [2]string
	Methods    []Method
	nonce      int64
	Extra      map[string]*chain.Acct // extra named contracts (C03 sibling frame)
	all        []*chain.Acct
	excl       [][]byte // excluded key prefixes (store name + ":" + key prefix)
	exclSuffix [][]byte // bank denom-owner index entries (0x03 | denom | 0 | len | address) of these addresses
}

var ctStores = []string{banktypes.StoreKey, cpctypes.StoreKey, stakingtypes.StoreKey, distrtypes.StoreKey, evmtypes.StoreKey, authtypes.StoreKey}

func cpcKind(t uint32) (string, abi.ABI) {
	switch t {
	case cpctypes.CpcTypeErc20:
		return "erc20", cpcabi.Erc20CpcInfo.ABI
	case cpctypes.CpcTypeStaking:
		return "staking", cpcabi.StakingCpcInfo.ABI
	case cpctypes.CpcTypeBech32:
		return "bech32", cpcabi.Bech32CpcInfo.ABI
	}
	panic(fmt.Sprintf("unknown custom precompile type %v", t))
}

// ListMethods reads every registered method from the real executors of the deployed contracts.
func ListMethods(c *chain.Chain) []Method {
	var out []Method
	seen := map[string]bool{}
	for _, ct := range c.App.CPCKeeper.GetAllCustomPrecompiledContracts(c.Ctx()) {
		meta := ct.GetMetadata()
		kind, ab := cpcKind(meta.CustomPrecompiledType)
		if seen[kind] {
			continue // a second ERC-20 contract has the same executors
		}
		seen[kind] = true
		for _, ex := range ct.GetMethodExecutors() {
			sel := ex.Method4BytesSignatures()
			m := Method{Cpc: kind, Sel: hex.EncodeToString(sel), Ro: ex.ReadOnly(), Gas: int64(ex.RequireGas()), Addr: common.BytesToAddress(meta.Address).Hex(), Name: "sel_" + hex.EncodeToString(sel)}
			if am, err := ab.MethodById(sel); err == nil {
				m.Name = am.Name
				m.AbiView = am.StateMutability == "view" || am.StateMutability == "pure"
			}
			out = append(out, m)
			if kind == "erc20" && m.Ro {
				// the ERC-20 precompile of the second denomination runs the same executors; its read-only methods are
				// separate vector targets (another address is touched)
				m2 := m
				m2.Cpc, m2.Addr = "erc20b", "second ERC-20 precompile"
				out = append(out, m2)
			}
		}
	}
	sort.Slice(out, func(i, j int) bool {
		if out[i].Cpc != out[j].Cpc {
			return out[i].Cpc < out[j].Cpc
		}
		return out[i].Name < out[j].Name
	})
	return out
}

// NewCtWorld builds the chain: 2 validators, ERC-20 (native denom) by genesis flag, bech32 by genesis,
// staking precompile through the real deployment message (3 decimals, so that the reward threshold of
// withdrawRewards is 1 unit), 16 funded forwarding contracts at keyed addresses, each with a delegation
// to validator 0 (native MsgDelegate signed by its key) and an ERC-20 allowance from Owner.
func NewCtWorld(depth int, foreign bool) *CtWorld {
	w := newCtWorld(depth, Kinds, Forwarder, nil, foreign)
	return w
}

// NewCtWorldWith is NewCtWorld with the forwarding contracts' kinds and code chosen by the caller, plus
// extra named contracts (funded, delegating and approved like the forwarders).
func NewCtWorldWith(depth int, kinds []string, code func(kind string) []byte, extra map[string][]byte) *CtWorld {
	return newCtWorld(depth, kinds, code, extra, false)
}

// newCtWorld: with foreign = true every precompile address (both ERC-20 precompiles, staking, bech32) receives coins of
// the non-EVM denomination (native MsgSend) and holds none of the EVM denomination: precondition "foreign" of CallTree.tla.
func newCtWorld(depth int, kinds []string, code func(kind string) []byte, extra map[string][]byte, foreign bool) *CtWorld {
	w := &CtWorld{Fwd: make([]map[string]*chain.Acct, depth), Extra: map[string]*chain.Acct{}}
	o := chain.DefaultOpts()
	o.NAccts = 4
	o.NVals = 2
	o.Bal = 100_000_000
	o.Bal2 = 1000
	o.CpcDeployErc20Native = true
	o.CpcWhitelist = []string{chain.NewAcct("a0").Acc().String()}
	w.Sender = chain.NewAcct("ct-sender")
	o.ExtraAccts = append(o.ExtraAccts, authtypes.NewBaseAccount(w.Sender.Acc(), nil, 0, 0))
	o.ExtraBals = append(o.ExtraBals, banktypes.Balance{Address: w.Sender.Acc().String(), Coins: sdk.NewCoins(sdk.NewInt64Coin(chain.Denom, 4_000_000_000_000_000_000))})
	for lvl := 0; lvl < depth; lvl++ {
		w.Fwd[lvl] = map[string]*chain.Acct{}
		for _, k := range kinds {
			a := chain.NewAcct(fmt.Sprintf("ct-fwd-%d-%s", lvl, k))
			w.Fwd[lvl][k] = a
			w.all = append(w.all, a)
			o.Contracts = append(o.Contracts, chain.GenContract{Addr: a.Addr, Code: code(k), Bal: 50_000_000, Bal2: 100_000})
		}
	}
	var names []string
	for n := range extra {
		names = append(names, n)
	}
	sort.Strings(names)
	for _, n := range names {
		a := chain.NewAcct("ct-extra-" + n)
		w.Extra[n] = a
		w.all = append(w.all, a)
		o.Contracts = append(o.Contracts, chain.GenContract{Addr: a.Addr, Code: extra[n], Bal: 50_000_000, Bal2: 100_000})
	}
	o.Patch = func(enc params.EncodingConfig, gs chainapp.GenesisState) {
		var sg stakingtypes.GenesisState
		enc.Codec.MustUnmarshalJSON(gs[stakingtypes.ModuleName], &sg)
		sg.Params.UnbondingTime = time.Second // unbondings / redelegations mature in the next block
		sg.Params.MaxEntries = 100
		gs[stakingtypes.ModuleName] = enc.Codec.MustMarshalJSON(&sg)
	}
	c := chain.New(o)
	w.C = c
	w.Owner = c.Accts[2]
	w.Recv = common.HexToAddress("0x00000000000000000000000000000000000abcde")
	must := func(what string, ok bool, info interface{}) {
		if !ok {
			panic(fmt.Sprintf("call-tree setup: %s failed: %v", what, info))
		}
	}
	res, adm, err := SendCosmos(c, c.Accts[0], 500000, &cpctypes.MsgDeployStakingContractRequest{Authority: c.Accts[0].Acc().String(), Symbol: "STK", Decimals: 3})
	must("deploy staking precompile", err == nil && adm && res.Code == 0, res)
	a := c.App.CPCKeeper.GetErc20CustomPrecompiledContractAddressByMinDenom(c.Ctx(), chain.Denom)
	must("native ERC-20 precompile", a != nil, nil)
	w.Erc20, w.Staking, w.Bech32 = *a, cpctypes.CpcStakingFixedAddress, cpctypes.CpcBech32FixedAddress
	for i := 0; i < 2; i++ {
		w.Val[i] = common.BytesToAddress(c.Vals[i].OpAddr)
		s, err := c.App.StakingKeeper.ValidatorAddressCodec().BytesToString(c.Vals[i].OpAddr)
		must("validator address", err == nil, err)
		w.ValStr[i] = s
	}
	{
		for _, f := range w.all {
			res, adm, err := SendCosmos(c, f, 400000, stakingtypes.NewMsgDelegate(f.Acc().String(), w.ValStr[0], sdk.NewCoin(chain.Denom, sdkmath.NewInt(100_000))))
			must("delegation of "+f.Name, err == nil && adm && res.Code == 0, res)
			r := SendEth(c, w.Owner, w.Erc20, Enc("approve(address,uint256)", AddrWord(f.Addr), Word(big.NewInt(1_000_000_000))), 200000)
			must("approval for "+f.Name, r.Admitted && r.Status == 1, r)
		}
	}
	// second ERC-20 precompile (non-EVM denomination), through the real deployment message
	res, adm, err = SendCosmos(c, c.Accts[0], 500000, &cpctypes.MsgDeployErc20ContractRequest{
		Authority: c.Accts[0].Acc().String(), Name: "TokenTwo", Symbol: "TWO", Decimals: 6, MinDenom: chain.Denom2})
	must("deploy second ERC-20 precompile", err == nil && adm && res.Code == 0, res)
	b := c.App.CPCKeeper.GetErc20CustomPrecompiledContractAddressByMinDenom(c.Ctx(), chain.Denom2)
	must("second ERC-20 precompile", b != nil, nil)
	w.Erc20B = *b
	w.Foreign = foreign
	if foreign {
		for _, t := range []common.Address{w.Erc20, w.Erc20B, w.Staking, w.Bech32} {
			res, adm, err := SendCosmos(c, c.Accts[1], 300000, banktypes.NewMsgSend(c.Accts[1].Acc(), t.Bytes(), sdk.NewCoins(sdk.NewInt64Coin(chain.Denom2, 50))))
			must("funding "+t.Hex()+" with the foreign denomination", err == nil && adm && res.Code == 0, res)
			must("no EVM-denomination coins on "+t.Hex(), c.Bal(t, chain.Denom).Sign() == 0 && c.Bal(t, chain.Denom2).Sign() > 0, nil)
		}
	}
	w.Methods = ListMethods(c)
	// bookkeeping that every block touches whatever the transaction does: the fee flow sender -> fee collector ->
	// distribution module (balances and the bank's denom-owner index of these three accounts), the reward pool
	// accounting of BeginBlock, the per-block records, the sender's account (sequence) and the global account
	// number (the EVM creates and drops an empty account for a touched address without one)
	acc := func(a common.Address) []byte { return append([]byte{byte(len(a.Bytes()))}, a.Bytes()...) }
	pfx := func(store string, key ...byte) []byte { return append([]byte(store+":"), key...) }
	for _, a := range []common.Address{w.Sender.Addr, chain.FeeCollector, chain.DistrModule} {
		w.excl = append(w.excl, pfx(banktypes.StoreKey, append(banktypes.BalancesPrefix.Bytes(), acc(a)...)...))
		w.exclSuffix = append(w.exclSuffix, acc(a))
	}
	for _, p := range [][]byte{distrtypes.FeePoolKey, distrtypes.ProposerKey, distrtypes.ValidatorOutstandingRewardsPrefix,
		distrtypes.ValidatorCurrentRewardsPrefix, distrtypes.ValidatorAccumulatedCommissionPrefix} {
		w.excl = append(w.excl, pfx(distrtypes.StoreKey, p...))
	}
	w.excl = append(w.excl, pfx(evmtypes.StoreKey, evmtypes.KeyPrefixBlockHash...), pfx(stakingtypes.StoreKey, stakingtypes.HistoricalInfoKey...))
	w.excl = append(w.excl, pfx(authtypes.StoreKey, append(authtypes.AddressStoreKeyPrefix.Bytes(), w.Sender.Acc().Bytes()...)...))
	w.excl = append(w.excl, pfx(authtypes.StoreKey, authtypes.GlobalAccountNumberKey.Bytes()...))
	w.Settle()
	return w
}

// Dump reads every key of the observed stores (committed state), minus the excluded bookkeeping.
func (w *CtWorld) Dump() map[string]string {
	out := map[string]string{}
	ctx := w.C.Ctx()
	for _, name := range ctStores {
		st := ctx.KVStore(w.C.App.GetKey(name))
		it := st.Iterator(nil, nil)
		for ; it.Valid(); it.Next() {
			k := append([]byte(name+":"), it.Key()...)
			skip := false
			for _, e := range w.excl {
				if bytes.HasPrefix(k, e) {
					skip = true
					break
				}
			}
			if !skip && name == banktypes.StoreKey && bytes.HasPrefix(it.Key(), banktypes.DenomAddressPrefix.Bytes()) {
				for _, e := range w.exclSuffix {
					if bytes.HasSuffix(k, e) {
						skip = true
						break
					}
				}
			}
			if !skip {
				out[string(k)] = string(it.Value())
			}
		}
		it.Close()
	}
	return out
}

// Diff lists the keys whose value differs (sorted, store name + hex key).
func Diff(a, b map[string]string) []string {
	var out []string
	for k, v := range a {
		if bv, ok := b[k]; !ok || bv != v {
			out = append(out, k)
		}
	}
	for k := range b {
		if _, ok := a[k]; !ok {
			out = append(out, k)
		}
	}
	sort.Strings(out)
	for i, k := range out {
		j := bytes.IndexByte([]byte(k), ':')
		out[i] = k[:j+1] + hex.EncodeToString([]byte(k[j+1:]))
	}
	return out
}

// Settle delivers empty blocks until an empty block changes nothing observed (matured unbondings etc.).
func (w *CtWorld) Settle() {
	prev := w.Dump()
	var last []string
	for i := 0; i < 12; i++ {
		if bo := w.C.Deliver(); bo.Panic != nil || bo.Err != nil {
			panic(fmt.Sprintf("empty block failed: %v %v", bo.Panic, bo.Err))
		}
		cur := w.Dump()
		d := Diff(prev, cur)
		if len(d) == 0 {
			return
		}
		last = d
		prev = cur
	}
	panic(fmt.Sprintf("call-tree world does not settle: empty blocks keep changing the observed stores: %v", last))
}

// ctxOf returns the forwarding contract whose address the precompile sees as its caller:
// the last contract of the path entered by CALL or STATICCALL (or the first one).
func (w *CtWorld) ctxOf(path []string) *chain.Acct {
	j := 0
	for i := 1; i < len(path); i++ {
		if path[i-1] == KCall || path[i-1] == KStaticCall {
			j = i
		}
	}
	return w.Fwd[j][path[j]]
}

func sign712(tm eip712.TypedMessage, a *chain.Acct) (r, s [32]byte, v uint8) {
	h, err := eip712.EIP712HashingTypedMessage(tm, big.NewInt(chain.EIP155))
	if err != nil {
		panic(err)
	}
	priv, err := a.Priv.ToECDSA()
	if err != nil {
		panic(err)
	}
	sig, err := crypto.Sign(h, priv)
	if err != nil {
		panic(err)
	}
	copy(r[:], sig[:32])
	copy(s[:], sig[32:64])
	return r, s, sig[64]
}

func pack(ab abi.ABI, name string, args ...interface{}) []byte {
	bz, err := ab.Pack(name, args...)
	if err != nil {
		panic(fmt.Sprintf("abi pack %s: %v", name, err))
	}
	return bz
}

// LeafData returns the precompile address and call data for method m issued by caller x, with
// arguments under which the method succeeds and (if it is state-changing) writes.
func (w *CtWorld) LeafData(m Method, x *chain.Acct) (common.Address, []byte) {
	w.nonce++
	X := x.Addr
	if m.Cpc == "erc20b" {
		m2 := m
		m2.Cpc = "erc20"
		_, data := w.LeafData(m2, x)
		return w.Erc20B, data
	}
	switch m.Cpc {
	case "erc20":
		switch m.Name {
		case "name":
			return w.Erc20, Enc("name()")
		case "symbol":
			return w.Erc20, Enc("symbol()")
		case "decimals":
			return w.Erc20, Enc("decimals()")
		case "totalSupply":
			return w.Erc20, Enc("totalSupply()")
		case "balanceOf":
			return w.Erc20, Enc("balanceOf(address)", AddrWord(X))
		case "allowance":
			return w.Erc20, Enc("allowance(address,address)", AddrWord(w.Owner.Addr), AddrWord(X))
		case "transfer":
			return w.Erc20, Enc("transfer(address,uint256)", AddrWord(w.Recv), Word(big.NewInt(7)))
		case "transferFrom":
			return w.Erc20, Enc("transferFrom(address,address,uint256)", AddrWord(w.Owner.Addr), AddrWord(w.Recv), Word(big.NewInt(5)))
		case "approve":
			return w.Erc20, Enc("approve(address,uint256)", AddrWord(w.Recv), Word(big.NewInt(1000+w.nonce)))
		case "burn":
			return w.Erc20, Enc("burn(uint256)", Word(big.NewInt(3)))
		case "burnFrom":
			return w.Erc20, Enc("burnFrom(address,uint256)", AddrWord(w.Owner.Addr), Word(big.NewInt(2)))
		}
	case "staking":
		ab := cpcabi.StakingCpcInfo.ABI
		switch m.Name {
		case "name", "symbol", "decimals", "withdrawRewards":
			return w.Staking, pack(ab, m.Name)
		case "delegatedValidators", "totalDelegationOf", "rewardsOf", "balanceOf":
			return w.Staking, pack(ab, m.Name, X)
		case "delegationOf", "rewardOf":
			return w.Staking, pack(ab, m.Name, X, w.Val[0])
		case "delegate":
			return w.Staking, pack(ab, m.Name, w.Val[0], big.NewInt(5))
		case "undelegate":
			return w.Staking, pack(ab, m.Name, w.Val[0], big.NewInt(1))
		case "redelegate":
			return w.Staking, pack(ab, m.Name, w.Val[0], w.Val[1], big.NewInt(1))
		case "withdrawReward":
			return w.Staking, pack(ab, m.Name, w.Val[0])
		case "transfer":
			return w.Staking, pack(ab, m.Name, X, big.NewInt(4))
		case "delegateByActionMessage":
			msg := cpcabi.StakingMessage{Action: cpcabi.StakingMessageActionDelegate, Delegator: X, Validator: w.ValStr[0], Amount: big.NewInt(3), Denom: chain.Denom, OldValidator: "-"}
			r, s, v := sign712(msg, x)
			return w.Staking, pack(ab, m.Name, msg, r, s, v)
		case "withdrawRewardsByMessage":
			msg := cpcabi.WithdrawRewardMessage{Delegator: X, FromValidator: w.ValStr[0]}
			r, s, v := sign712(msg, x)
			return w.Staking, pack(ab, m.Name, msg, r, s, v)
		}
	case "bech32":
		ab := cpcabi.Bech32CpcInfo.ABI
		switch m.Name {
		case "bech32EncodeAddress":
			return w.Bech32, pack(ab, m.Name, "evm", X)
		case "bech32Encode32BytesAddress":
			return w.Bech32, pack(ab, m.Name, "evm", [32]byte(crypto.Keccak256Hash(X.Bytes())))
		case "bech32EncodeBytes":
			return w.Bech32, pack(ab, m.Name, "evm", X.Bytes())
		case "bech32Decode":
			return w.Bech32, pack(ab, m.Name, sdk.AccAddress(X.Bytes()).String())
		default:
			return w.Bech32, pack(ab, m.Name)
		}
	}
	panic(fmt.Sprintf("no leaf arguments known for %s.%s: a method was added to the precompile, extend harness/cpc/calltree.go", m.Cpc, m.Name))
}

// Vector is what TLC generated (spec/CallTree.tla, Vectors) plus what the real code did.
type Vector struct {
	ID      int      `json:"id"`
	Path    []string `json:"path"`
	Cpc     string   `json:"cpc"`
	Method  string   `json:"method"`
	Ro      bool     `json:"ro"`
	Allowed bool     `json:"allowed"`
	Pre     string   `json:"pre"`
}

// CtGas is the gas limit of every vector transaction.
const CtGas = 4_000_000

// RunVector executes one vector as a real transaction in its own block.
func (w *CtWorld) RunVector(v Vector, pre map[string]string) (ev trace.M, post map[string]string) {
	var m *Method
	for i := range w.Methods {
		if w.Methods[i].Cpc == v.Cpc && w.Methods[i].Name == v.Method {
			m = &w.Methods[i]
		}
	}
	if m == nil {
		panic(fmt.Sprintf("vector %d names an unknown method %s.%s", v.ID, v.Cpc, v.Method))
	}
	x := w.ctxOf(v.Path)
	target, leaf := w.LeafData(*m, x)
	hops := []common.Address{}
	for i := 1; i < len(v.Path); i++ {
		hops = append(hops, w.Fwd[i][v.Path[i]].Addr)
	}
	hops = append(hops, target)
	r := SendEth(w.C, w.Sender, w.Fwd[0][v.Path[0]].Addr, Route(hops, leaf), CtGas)
	if r.Panic != nil {
		panic(fmt.Sprintf("vector %d: block panicked: %v", v.ID, r.Panic))
	}
	if !r.Admitted {
		panic(fmt.Sprintf("vector %d: transaction not admitted: code %d %s", v.ID, r.Code, r.Log))
	}
	post = w.Dump()
	d := Diff(pre, post)
	sample := d
	if len(sample) > 6 {
		sample = sample[:6]
	}
	st := int64(0)
	if r.HasRcpt && r.Status == 1 {
		st = 1
	}
	ev = trace.M{"ev": "Vector", "id": v.ID, "pre": v.Pre, "path": v.Path, "cpc": v.Cpc, "method": v.Method, "caller": x.Name,
		"status": st, "changed": len(d) > 0, "nchanged": len(d), "nlogs": len(r.Logs), "gasUsed": r.GasUsed, "evmGas": r.EvmGas, "vmError": trunc(r.VmError, 80), "sample": append([]string{}, sample...)}
	return ev, post
}

func trunc(s string, n int) string {
	if len(s) > n {
		return s[:n]
	}
	return s
}

// RunCallTree executes every vector of the file TLC wrote (one JSON object per line).
func RunCallTree(out *trace.W, vectorsPath string, only string, shard, shards int) map[string]int {
	stats := map[string]int{}
	f, err := os.Open(vectorsPath)
	if err != nil {
		panic(err)
	}
	defer f.Close()
	var vs []Vector
	sc := bufio.NewScanner(f)
	sc.Buffer(make([]byte, 1<<20), 1<<26)
	for sc.Scan() {
		if len(bytes.TrimSpace(sc.Bytes())) == 0 {
			continue
		}
		var v Vector
		if err := json.Unmarshal(sc.Bytes(), &v); err != nil {
			panic(fmt.Sprintf("bad vector line: %v: %s", err, sc.Text()))
		}
		vs = append(vs, v)
	}
	depth := 1
	for _, v := range vs {
		if len(v.Path) > depth {
			depth = len(v.Path)
		}
	}
	worlds := map[string]*CtWorld{}
	pres := map[string]map[string]string{}
	first := true
	for _, v := range vs {
		if only != "" && v.Cpc+"."+v.Method != only {
			continue
		}
		if shards > 1 && v.ID%shards != shard {
			continue
		}
		w := worlds[v.Pre]
		if w == nil {
			switch v.Pre {
			case "bare":
				w = NewCtWorld(depth, false)
			case "foreign":
				w = NewCtWorld(depth, true)
			default:
				panic("unknown precondition " + v.Pre)
			}
			worlds[v.Pre] = w
			pres[v.Pre] = w.Dump()
			if first && shard == 0 {
				out.Emit(trace.M{"ev": "Methods", "methods": w.Methods})
			}
			first = false
		}
		ev, post := w.RunVector(v, pres[v.Pre])
		out.Emit(ev)
		pres[v.Pre] = post
		if ev["changed"].(bool) {
			w.Settle()
			pres[v.Pre] = w.Dump()
			stats["changed"]++
		}
		stats["vectors"]++
	}
	return stats
}

// ListMethodsFresh builds a chain with the three precompiles deployed by genesis (no transaction is
// executed) and reads the method table.
func ListMethodsFresh() []Method {
	o := chain.DefaultOpts()
	o.NAccts = 2
	o.CpcDeployErc20Native = true
	o.CpcDeployStaking = true
	return ListMethods(chain.New(o))
}
