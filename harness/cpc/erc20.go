package cpc

import (
	"bytes"
	"encoding/json"
	"fmt"
	"math/big"
	"math/rand"
	"os"
	"reflect"
	"sort"

	sdkmath "cosmossdk.io/math"
	sdk "github.com/cosmos/cosmos-sdk/types"
	banktypes "github.com/cosmos/cosmos-sdk/x/bank/types"
	"github.com/ethereum/go-ethereum/common"
	ethtypes "github.com/ethereum/go-ethereum/core/types"

	cpctypes "github.com/EscanBE/evermint/v12/x/cpc/types"

	"verifharness/chain"
	"verifharness/trace"
)

// Erc20World is one chain with two ERC-20 precompiles ("A" = native denom, deployed by the
// genesis flag; "B" = chain.Denom2, deployed by a whitelisted deployer through the real message)
// plus the naming universe of the trace.
type Erc20World struct {
	C        *chain.Chain
	Tok      map[string]common.Address
	Denom    map[string]string
	Addr     map[string]common.Address
	Name     map[common.Address]string
	Acct     map[string]*chain.Acct
	EOAs     []string
	Fwds     []string // forwarding contracts: fc (CALL), fd (DELEGATECALL)
	Holders  []string // balances projected
	Owners   []string // allowance owners projected (everything that can call)
	Spenders []string // allowance spenders projected
	R        *rand.Rand
	Tid      string
}

var (
	fcAddr = common.HexToAddress("0x00000000000000000000000000000000f0c00001")
	fdAddr = common.HexToAddress("0x00000000000000000000000000000000f0d00002")
)

// Tokens in a fixed order.
var Tokens = []string{"A", "B"}

// NewErc20World builds the chain.
func NewErc20World(seed int64, tid string) *Erc20World {
	o := chain.DefaultOpts()
	o.NAccts = 4
	o.Bal = 100_000_000
	o.Bal2 = 1000
	o.CpcDeployErc20Native = true
	deployer := chain.NewAcct("a0")
	o.CpcWhitelist = []string{deployer.Acc().String()}
	o.Contracts = []chain.GenContract{
		{Addr: fcAddr, Code: Forwarder(KCall), Bal: 60, Bal2: 40},
		{Addr: fdAddr, Code: Forwarder(KDelegateCall), Bal: 30, Bal2: 70},
	}
	c := chain.New(o)
	w := &Erc20World{C: c, Tok: map[string]common.Address{}, Denom: map[string]string{"A": chain.Denom, "B": chain.Denom2},
		Addr: map[string]common.Address{}, Name: map[common.Address]string{}, Acct: map[string]*chain.Acct{},
		R: rand.New(rand.NewSource(seed)), Tid: tid}
	// second token: the real deployment message, signed by the whitelisted deployer
	res, admitted, err := SendCosmos(c, c.Accts[0], 500000, &cpctypes.MsgDeployErc20ContractRequest{
		Authority: c.Accts[0].Acc().String(), Name: "TokenTwo", Symbol: "TWO", Decimals: 6, MinDenom: chain.Denom2})
	if err != nil || !admitted || res.Code != 0 {
		panic(fmt.Sprintf("cannot deploy the second ERC-20 precompile: %v admitted=%v res=%v", err, admitted, res))
	}
	for t, d := range w.Denom {
		a := c.App.CPCKeeper.GetErc20CustomPrecompiledContractAddressByMinDenom(c.Ctx(), d)
		if a == nil {
			panic("no ERC-20 precompile for " + d)
		}
		w.Tok[t] = *a
	}
	add := func(n string, a common.Address) { w.Addr[n] = a; w.Name[a] = n }
	for i := 1; i <= 3; i++ {
		n := fmt.Sprintf("a%d", i)
		add(n, c.Accts[i].Addr)
		w.Acct[n] = c.Accts[i]
		w.EOAs = append(w.EOAs, n)
	}
	add("fc", fcAddr)
	add("fd", fdAddr)
	w.Fwds = []string{"fc", "fd"}
	add("zero", common.Address{})
	add("mod", chain.GovModule)
	// the cpc module account itself: the precompile routes burns through it (send to module, burn from module),
	// so coins parked on it must survive other holders' burns
	add("cpcmod", cpctypes.CpcModuleAddress)
	add("tokA", w.Tok["A"])
	add("tokB", w.Tok["B"])
	w.Holders = []string{"a1", "a2", "a3", "fc", "fd", "zero", "mod", "cpcmod", "tokA", "tokB"}
	w.Owners = []string{"a1", "a2", "a3", "fc", "fd"}
	w.Spenders = []string{"a1", "a2", "a3", "fc", "fd", "mod", "cpcmod", "tokA", "tokB"}
	return w
}

// Val encodes a uint256 for TLC: small numbers as such, numbers near 2^255 and 2^256-1 as
// symbolic tokens minus a small offset. Anything else does not fit (infrastructure error).
func Val(b *big.Int) trace.M {
	if b.Sign() >= 0 && b.IsInt64() && b.Int64() < trace.Limit {
		return trace.M{"t": "N", "v": b.Int64()}
	}
	if d := new(big.Int).Sub(MaxU256, b); d.Sign() >= 0 && d.IsInt64() && d.Int64() < trace.Limit {
		return trace.M{"t": "MAXU", "v": d.Int64()}
	}
	if d := new(big.Int).Sub(Half256, b); d.Sign() >= 0 && d.IsInt64() && d.Int64() < trace.Limit {
		return trace.M{"t": "HALF", "v": d.Int64()}
	}
	for _, base := range []struct {
		name string
		v    *big.Int
	}{{"P128", new(big.Int).Lsh(big.NewInt(1), 128)}, {"P64", new(big.Int).Lsh(big.NewInt(1), 64)}} {
		if d := new(big.Int).Sub(base.v, b); d.Sign() >= 0 && d.IsInt64() && d.Int64() < trace.Limit {
			return trace.M{"t": base.name, "v": d.Int64()}
		}
	}
	panic(trace.ErrTooBig{V: b.String()})
}

func (w *Erc20World) nameOf(a common.Address) string {
	if n, ok := w.Name[a]; ok {
		return n
	}
	return "?" + a.Hex()
}

// view issues an eth_call to the precompile of token t and decodes one uint256.
func (w *Erc20World) view(t string, data []byte) *big.Int {
	ret, vmErr, err := EthCall(w.C, w.Addr["a1"], w.Tok[t], data)
	if err != nil || vmErr != "" || len(ret) != 32 {
		panic(fmt.Sprintf("view on token %s failed: err=%v vmErr=%q ret=%x", t, err, vmErr, ret))
	}
	return new(big.Int).SetBytes(ret)
}

// Obs is the projection after a step: bank balances and supply read from x/bank, the same
// numbers read through the precompile's views, and the allowance table read through the
// precompile's view of each token and through the keeper.
func (w *Erc20World) Obs() trace.M {
	c := w.C
	bal, balV, sup, supV, allowV := trace.M{}, trace.M{}, trace.M{}, trace.M{}, trace.M{}
	for _, t := range Tokens {
		b, bv := trace.M{}, trace.M{}
		for _, h := range w.Holders {
			b[h] = trace.I(c.Bal(w.Addr[h], w.Denom[t]))
			bv[h] = Val(w.view(t, Enc("balanceOf(address)", AddrWord(w.Addr[h]))))
		}
		bal[t], balV[t] = b, bv
		sup[t] = trace.I(c.Supply(w.Denom[t]))
		supV[t] = Val(w.view(t, Enc("totalSupply()")))
		av := trace.M{}
		for _, o := range w.Owners {
			for _, s := range w.Spenders {
				if v := w.view(t, Enc("allowance(address,address)", AddrWord(w.Addr[o]), AddrWord(w.Addr[s]))); v.Sign() != 0 {
					av[o+">"+s] = Val(v)
				}
			}
		}
		allowV[t] = av
	}
	// the allowance table through the keeper: per token when the keeper offers a contract-scoped getter
	// (GetErc20CpcAllowanceOf), otherwise the token-less table is what every token's entry shows
	allowK := trace.M{}
	nonzero := 0
	for i, t := range Tokens {
		row := trace.M{}
		for _, o := range w.Owners {
			for _, s := range w.Spenders {
				v, scoped := w.keeperAllowance(t, w.Addr[o], w.Addr[s])
				if v.Sign() != 0 {
					if scoped || i == 0 {
						nonzero++
					}
					row[o+">"+s] = Val(v)
				}
			}
		}
		allowK[t] = row
	}
	// entries of the allowance store outside the projected pairs (must not exist)
	st := c.Ctx().KVStore(c.App.GetKey(cpctypes.StoreKey))
	it := st.Iterator(nil, nil)
	n := 0
	for ; it.Valid(); it.Next() {
		if k := it.Key(); len(k) > 0 && k[0] >= cpctypes.KeyPrefixErc20CpcAllowance[0] {
			n++
		}
	}
	it.Close()
	return trace.M{"bal": bal, "balV": balV, "supply": sup, "supplyV": supV, "allowV": allowV, "allowK": allowK, "strayAllow": n - nonzero}
}

// keeperAllowance reads the allowance store through the keeper's exported getter.
func (w *Erc20World) keeperAllowance(t string, o, s common.Address) (*big.Int, bool) {
	ctx := w.C.Ctx()
	k := reflect.ValueOf(w.C.App.CPCKeeper)
	if m := k.MethodByName("GetErc20CpcAllowanceOf"); m.IsValid() {
		out := m.Call([]reflect.Value{reflect.ValueOf(ctx), reflect.ValueOf(w.Tok[t]), reflect.ValueOf(o), reflect.ValueOf(s)})
		return out[0].Interface().(*big.Int), true
	}
	return w.C.App.CPCKeeper.GetErc20CpcAllowance(ctx, o, s), false
}

// anyAllowance is the largest allowance owner -> spender over the tokens (generator bias only).
func (w *Erc20World) anyAllowance(o, s string) *big.Int {
	best := new(big.Int)
	for _, t := range Tokens {
		if v, _ := w.keeperAllowance(t, w.Addr[o], w.Addr[s]); v.Cmp(best) > 0 {
			best = v
		}
	}
	return best
}

// Erc20Call describes one call for the trace and for the encoder.
type Erc20Call struct {
	Token  string
	Method string
	Caller string // effective caller: an EOA (direct) or a forwarding contract
	Payer  string // the EOA that signs the transaction
	Via    string // direct | call | delegatecall
	A1, A2 string // address arguments by name ("none" when unused)
	Amt    *big.Int
}

func (w *Erc20World) calldata(k Erc20Call) []byte {
	a1, a2 := w.Addr[k.A1], w.Addr[k.A2]
	amt := k.Amt
	if amt == nil {
		amt = new(big.Int)
	}
	switch k.Method {
	case "transfer":
		return Enc("transfer(address,uint256)", AddrWord(a1), Word(amt))
	case "transferFrom":
		return Enc("transferFrom(address,address,uint256)", AddrWord(a1), AddrWord(a2), Word(amt))
	case "approve":
		return Enc("approve(address,uint256)", AddrWord(a1), Word(amt))
	case "burn":
		return Enc("burn(uint256)", Word(amt))
	case "burnFrom":
		return Enc("burnFrom(address,uint256)", AddrWord(a1), Word(amt))
	case "balanceOf":
		return Enc("balanceOf(address)", AddrWord(a1))
	case "allowance":
		return Enc("allowance(address,address)", AddrWord(a1), AddrWord(a2))
	case "totalSupply":
		return Enc("totalSupply()")
	}
	panic("unknown method " + k.Method)
}

var (
	topicTransfer = common.HexToHash("0xddf252ad1be2c89b69c2b068fc378daa952ba7f163c4a11628f55a4df523b3ef")
	topicApproval = common.HexToHash("0x8c5be1e5ebec7d5bd14f71427d1e84f3dd0314c0f7b2291e5b200ac8c7c3b925")
)

func (w *Erc20World) logOut(lg *ethtypes.Log) trace.M {
	m := trace.M{"addr": w.nameOf(lg.Address), "kind": "other", "a": "none", "b": "none", "amt": Val(new(big.Int))}
	if len(lg.Topics) == 3 && len(lg.Data) == 32 {
		switch lg.Topics[0] {
		case topicTransfer:
			m["kind"] = "Transfer"
		case topicApproval:
			m["kind"] = "Approval"
		}
		m["a"] = w.nameOf(common.BytesToAddress(lg.Topics[1].Bytes()))
		m["b"] = w.nameOf(common.BytesToAddress(lg.Topics[2].Bytes()))
		if !bytes.Equal(lg.Topics[1].Bytes()[:12], make([]byte, 12)) || !bytes.Equal(lg.Topics[2].Bytes()[:12], make([]byte, 12)) {
			m["kind"] = "other" // dirty high bytes in an indexed address
		}
		m["amt"] = Val(new(big.Int).SetBytes(lg.Data))
	}
	return m
}

// CallGas is the gas limit of every ERC-20 call transaction.
const CallGas = 300_000

// DoCall issues the call as a real transaction (one block) and emits the trace event.
func (w *Erc20World) DoCall(out *trace.W, k Erc20Call, stats map[string]int) {
	data := w.calldata(k)
	to := w.Tok[k.Token]
	switch k.Via {
	case "call":
		data, to = Route([]common.Address{w.Tok[k.Token]}, data), w.Addr["fc"]
	case "delegatecall":
		data, to = Route([]common.Address{w.Tok[k.Token]}, data), w.Addr["fd"]
	}
	r := SendEth(w.C, w.Acct[k.Payer], to, data, CallGas)
	if r.Panic != nil {
		panic(fmt.Sprintf("block panicked: %v", r.Panic))
	}
	amt := k.Amt
	if amt == nil {
		amt = new(big.Int)
	}
	ev := trace.M{"ev": "Call", "token": k.Token, "method": k.Method, "caller": k.Caller, "payer": k.Payer, "via": k.Via,
		"a1": k.A1, "a2": k.A2, "amt": Val(amt), "admitted": r.Admitted, "maxFee": int64(0), "refund": int64(0)}
	if r.Admitted {
		ev["maxFee"] = int64(CallGas * GasPrice)
		ev["refund"] = int64(CallGas*GasPrice) - r.GasUsed*GasPrice
	}
	ok := r.HasRcpt && r.Status == 1
	ev["ok"] = ok
	ret := trace.M{"k": "none", "v": Val(new(big.Int))}
	if ok && len(r.Ret) == 32 {
		ret = trace.M{"k": "word", "v": Val(new(big.Int).SetBytes(r.Ret))}
	} else if ok {
		ret = trace.M{"k": "odd", "v": Val(big.NewInt(int64(len(r.Ret))))}
	}
	ev["ret"] = ret
	logs := []interface{}{}
	for _, lg := range r.Logs {
		logs = append(logs, w.logOut(lg))
	}
	ev["logs"] = logs
	ev["obs"] = w.Obs()
	out.Emit(ev)
	cls := "fail"
	if !r.Admitted {
		cls = "ante"
	} else if ok {
		cls = "ok"
	}
	stats[k.Method+"."+k.Via+"."+cls]++
}

// DoBankSend issues a native MsgSend of token t.
func (w *Erc20World) DoBankSend(out *trace.W, t, from, to string, amt int64, stats map[string]int) {
	const gas = 200_000
	msg := banktypes.NewMsgSend(w.Addr[from].Bytes(), w.Addr[to].Bytes(), sdk.NewCoins(sdk.NewCoin(w.Denom[t], sdkmath.NewInt(amt))))
	res, admitted, err := SendCosmos(w.C, w.Acct[from], gas, msg)
	if err != nil {
		panic(err)
	}
	ev := trace.M{"ev": "BankSend", "token": t, "from": from, "to": to, "amt": amt, "admitted": admitted, "fee": int64(0), "ok": admitted && res.Code == 0}
	if admitted {
		ev["fee"] = int64(gas * GasPrice)
	}
	ev["obs"] = w.Obs()
	out.Emit(ev)
	switch {
	case !admitted:
		stats["banksend.ante"]++
	case res.Code == 0:
		stats["banksend.ok"]++
	default:
		stats["banksend.fail"]++
	}
}

func (w *Erc20World) pick(xs []string) string { return xs[w.R.Intn(len(xs))] }

// amount picks a concrete uint256 from the amount classes relative to the balance of `owner`
// (the account whose coins would move) and the allowance owner->spender.
func (w *Erc20World) amount(t, owner, spender, payer string) *big.Int {
	bal := new(big.Int).Set(w.C.Bal(w.Addr[owner], w.Denom[t]))
	if t == "A" && owner == payer {
		// the ante handler has taken gas limit x price before the call executes
		bal.Sub(bal, big.NewInt(CallGas*GasPrice))
		if bal.Sign() < 0 {
			bal.SetInt64(0)
		}
	}
	al := new(big.Int)
	if spender != "" {
		al = w.anyAllowance(owner, spender)
	}
	one := big.NewInt(1)
	if spender != "" && al.IsInt64() && w.R.Intn(3) == 0 {
		// spend the remainder above an encoding boundary: the stored allowance becomes exactly the boundary
		var cands []int64
		for _, bd := range smallBoundaries {
			if rest := al.Int64() - bd; rest > 0 && big.NewInt(rest).Cmp(bal) <= 0 {
				cands = append(cands, rest)
			}
		}
		if len(cands) > 0 {
			return big.NewInt(cands[w.R.Intn(len(cands))])
		}
	}
	if spender != "" && al.Sign() > 0 && al.IsInt64() && w.R.Intn(3) == 0 {
		// part of a finite allowance: approve-spend-respend sequences
		return big.NewInt(1 + w.R.Int63n(al.Int64()))
	}
	switch w.R.Intn(12) {
	case 0:
		return new(big.Int)
	case 1, 2, 3:
		return big.NewInt(int64(1 + w.R.Intn(9)))
	case 4:
		return bal
	case 5:
		return new(big.Int).Add(bal, one)
	case 6:
		if al.IsInt64() {
			return al
		}
		return big.NewInt(3)
	case 7:
		if al.IsInt64() {
			return new(big.Int).Add(al, one)
		}
		return big.NewInt(4)
	case 8:
		return new(big.Int).Set(Half256)
	case 9:
		return new(big.Int).Set(MaxU256)
	case 10:
		if bal.Sign() > 0 {
			return new(big.Int).Rsh(bal, 1)
		}
		return big.NewInt(2)
	default:
		return big.NewInt(int64(10 + w.R.Intn(40)))
	}
}

// approveAmount: allowances worth spending later.
func (w *Erc20World) approveAmount() *big.Int {
	switch w.R.Intn(10) {
	case 0:
		return new(big.Int)
	case 1:
		return new(big.Int).Set(MaxU256)
	case 2:
		return new(big.Int).Set(Half256)
	case 3, 4:
		// encoding boundaries of the stored value
		return new(big.Int).Set(boundaryAmounts[w.R.Intn(len(boundaryAmounts))])
	case 5:
		// a small boundary plus a remainder, to be spent down to the boundary
		return big.NewInt(smallBoundaries[w.R.Intn(len(smallBoundaries))] + int64(1+w.R.Intn(40)))
	default:
		return big.NewInt(int64(1 + w.R.Intn(60)))
	}
}

var smallBoundaries = []int64{1, 127, 128, 255, 256, 257}

// boundaryAmounts: byte / word boundaries of the big-endian encoding of an allowance.
var boundaryAmounts = func() []*big.Int {
	p := func(n uint) *big.Int { return new(big.Int).Lsh(big.NewInt(1), n) }
	m1 := func(x *big.Int) *big.Int { return new(big.Int).Sub(x, big.NewInt(1)) }
	return []*big.Int{big.NewInt(1), big.NewInt(127), big.NewInt(128), big.NewInt(255), big.NewInt(256), big.NewInt(257), big.NewInt(65535), big.NewInt(65536),
		m1(p(64)), p(64), p(128), p(255), m1(MaxU256), MaxU256}
}()

// GenStep picks and issues one step.
func (w *Erc20World) GenStep(out *trace.W, stats map[string]int) {
	r := w.R
	t := w.pick(Tokens)
	if r.Intn(10) == 0 {
		from := w.pick(w.EOAs)
		to := w.pick([]string{"a1", "a2", "a3", "fc", "fd", "tokA", "tokB"})
		bal := w.C.Bal(w.Addr[from], w.Denom[t]).Int64()
		amt := int64(1 + r.Intn(50))
		switch r.Intn(6) {
		case 0:
			amt = bal + 1
		case 1:
			if t == "B" && bal > 0 {
				amt = bal
			}
		}
		w.DoBankSend(out, t, from, to, amt, stats)
		return
	}
	payer := w.pick(w.EOAs)
	via := []string{"direct", "direct", "call", "delegatecall"}[r.Intn(4)]
	caller := payer
	switch via {
	case "call":
		caller = "fc"
	case "delegatecall":
		caller = "fd"
	}
	anyAddr := func() string { return w.pick(w.Holders) }
	// receivers: park coins on the cpc module account often, so that later burns run while it holds some
	recvAddr := func() string {
		if r.Intn(5) == 0 {
			return "cpcmod"
		}
		return anyAddr()
	}
	k := Erc20Call{Token: t, Caller: caller, Payer: payer, Via: via, A1: "none", A2: "none"}
	// owners that granted the caller something (on either token: the code's table has no token)
	var granted []string
	for _, o := range w.Owners {
		if o != caller && w.anyAllowance(o, caller).Sign() > 0 {
			granted = append(granted, o)
		}
	}
	sort.Strings(granted)
	pickOwner := func() string {
		if len(granted) > 0 && r.Intn(10) < 7 {
			return w.pick(granted)
		}
		return anyAddr()
	}
	switch m := r.Intn(100); {
	case m < 18:
		k.Method, k.A1 = "transfer", recvAddr()
		k.Amt = w.amount(t, caller, "", payer)
	case m < 46:
		k.Method, k.A1, k.A2 = "transferFrom", pickOwner(), recvAddr()
		k.Amt = w.amount(t, k.A1, caller, payer)
	case m < 68:
		k.Method, k.A1 = "approve", anyAddr()
		if r.Intn(10) < 7 {
			k.A1 = w.pick(w.Owners) // somebody who can spend it later
		}
		k.Amt = w.approveAmount()
	case m < 76:
		k.Method = "burn"
		k.Amt = w.amount(t, caller, "", payer)
	case m < 90:
		k.Method, k.A1 = "burnFrom", pickOwner()
		k.Amt = w.amount(t, k.A1, caller, payer)
	case m < 94:
		k.Method, k.A1 = "balanceOf", anyAddr()
	case m < 97:
		k.Method, k.A1, k.A2 = "allowance", w.pick(w.Owners), w.pick(w.Spenders)
	default:
		k.Method = "totalSupply"
	}
	w.DoCall(out, k, stats)
}

// GenErc20 writes `traces` histories of `steps` steps each.
func GenErc20(out *trace.W, seed int64, traces, steps int) map[string]int {
	stats := map[string]int{}
	for i := 0; i < traces; i++ {
		tid := fmt.Sprintf("erc20-s%d-t%d", seed, i)
		w := NewErc20World(seed*100003+int64(i), tid)
		out.Emit(trace.M{"ev": "Genesis", "tid": tid, "tokens": Tokens, "holders": w.Holders, "owners": w.Owners, "spenders": w.Spenders,
			"callers": w.Owners, "obs": w.Obs()})
		for s := 0; s < steps; s++ {
			w.GenStep(out, stats)
		}
		stats["traces"]++
	}
	return stats
}

// ScriptStep is one step of a behaviour generated by `tlc -simulate` on Erc20Cpc.tla (variable hist).
type ScriptStep struct {
	Kind string `json:"kind"` // call | send
	T    string `json:"t"`
	M    string `json:"m"`
	C    string `json:"c"`
	A1   string `json:"a1"`
	A2   string `json:"a2"`
	Amt  struct {
		T string `json:"t"`
		V int64  `json:"v"`
	} `json:"amt"`
}

// ReplayErc20 (B2) replays TLC-generated behaviours as real transactions: one fresh chain per behaviour;
// a call by an EOA is issued directly, a call by "fc" / "fd" through the CALL / DELEGATECALL forwarder
// with an EOA paying; the same trace events are written, so TraceErc20Cpc.tla judges the outcome.
func ReplayErc20(out *trace.W, script string) map[string]int {
	stats := map[string]int{}
	bz, err := os.ReadFile(script)
	if err != nil {
		panic(err)
	}
	var behaviours [][]ScriptStep
	if err := json.Unmarshal(bz, &behaviours); err != nil {
		panic(err)
	}
	for i, b := range behaviours {
		tid := fmt.Sprintf("erc20-sim-%d", i)
		w := NewErc20World(int64(7919*i+1), tid)
		out.Emit(trace.M{"ev": "Genesis", "tid": tid, "tokens": Tokens, "holders": w.Holders, "owners": w.Owners, "spenders": w.Spenders,
			"callers": w.Owners, "obs": w.Obs()})
		for _, st := range b {
			amt := big.NewInt(st.Amt.V)
			switch st.Amt.T {
			case "MAXU":
				amt = new(big.Int).Sub(MaxU256, amt)
			case "HALF":
				amt = new(big.Int).Sub(Half256, amt)
			}
			if st.Kind == "send" {
				if w.Acct[st.C] == nil || st.A1 == "mod" || st.A1 == "cpcmod" || st.A1 == "zero" {
					// outside the modelled environment: a contract cannot sign a native message, and x/bank refuses
					// MsgSend to module accounts (blocked addresses)
					continue
				}
				w.DoBankSend(out, st.T, st.C, st.A1, st.Amt.V, stats)
				continue
			}
			k := Erc20Call{Token: st.T, Method: st.M, Caller: st.C, Payer: st.C, Via: "direct", A1: st.A1, A2: st.A2, Amt: amt}
			switch st.C {
			case "fc":
				k.Via, k.Payer = "call", w.pick(w.EOAs)
			case "fd":
				k.Via, k.Payer = "delegatecall", w.pick(w.EOAs)
			}
			w.DoCall(out, k, stats)
		}
		stats["traces"]++
	}
	return stats
}
