package cpc

import "verifharness/trace"

func ReplayErc20(out *trace.W, script string) map[string]int { return map[string]int{} }
