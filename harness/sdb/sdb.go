// Package sdb drives the real context-based StateDB of x/evm/vm directly (no EVM in between):
// random operation sequences with arbitrarily nested Snapshot / RevertToSnapshot, ended by
// Commit or Discard; after every operation every getter is read for every address and slot of
// the universe.  The trace is validated by spec/TraceStateDB.tla.
package sdb

import (
	"crypto/sha256"
	"encoding/hex"
	"fmt"
	"math/big"
	"math/rand"
	"sort"
	"time"

	sdkmath "cosmossdk.io/math"
	"cosmossdk.io/store/rootmulti"
	storetypes "cosmossdk.io/store/types"
	sdk "github.com/cosmos/cosmos-sdk/types"
	authtypes "github.com/cosmos/cosmos-sdk/x/auth/types"
	vestexported "github.com/cosmos/cosmos-sdk/x/auth/vesting/exported"
	vestingtypes "github.com/cosmos/cosmos-sdk/x/auth/vesting/types"
	banktypes "github.com/cosmos/cosmos-sdk/x/bank/types"
	"github.com/ethereum/go-ethereum/common"
	ethtypes "github.com/ethereum/go-ethereum/core/types"

	evmvm "github.com/EscanBE/evermint/v12/x/evm/vm"

	"verifharness/chain"
	"verifharness/prog"
	"verifharness/trace"
)

// NSlots is the number of storage slots of the universe (s0..).
const NSlots = 3

var codes = map[string][]byte{
	"k0": {0x60, 0x00, 0x60, 0x00, 0xf3},
	"k1": {0x60, 0x01, 0x60, 0x00, 0xf3, 0x00},
	"k2": {0x00},
}

func codeID(code []byte) string {
	if len(code) == 0 {
		return "none"
	}
	for id, c := range codes {
		if string(c) == string(code) {
			return id
		}
	}
	return "unknown"
}

func addrN(i int) common.Address {
	return common.HexToAddress(fmt.Sprintf("0x00000000000000000000000000000000ad00%04x", i))
}

func slotHash(i int) common.Hash { return common.BigToHash(big.NewInt(int64(i))) }

// Env is one application with the universe of the StateDB traces.
type Env struct {
	C *chain.Chain
	U *prog.Universe
	// names by role, for the generator
	Writable []string // addresses ordinary operations pick from
	All      []string
}

func vest(kind string, a common.Address, amount int64, start, end int64) authtypes.GenesisAccount {
	ba := authtypes.NewBaseAccount(a.Bytes(), nil, 0, 0)
	ov := sdk.NewCoins(sdk.NewInt64Coin(chain.Denom, amount))
	if amount == 0 {
		ov = sdk.Coins{}
	}
	bva := &vestingtypes.BaseVestingAccount{BaseAccount: ba, OriginalVesting: ov, EndTime: end}
	switch kind {
	case "continuous":
		return &vestingtypes.ContinuousVestingAccount{BaseVestingAccount: bva, StartTime: start}
	case "delayed":
		return &vestingtypes.DelayedVestingAccount{BaseVestingAccount: bva}
	case "periodic":
		half := amount / 2
		return &vestingtypes.PeriodicVestingAccount{BaseVestingAccount: bva, StartTime: start, VestingPeriods: vestingtypes.Periods{
			{Length: (end - start) / 2, Amount: sdk.NewCoins(sdk.NewInt64Coin(chain.Denom, half))},
			{Length: (end - start) - (end-start)/2, Amount: sdk.NewCoins(sdk.NewInt64Coin(chain.Denom, amount-half))},
		}}
	case "permanent":
		bva.EndTime = 0
		return &vestingtypes.PermanentLockedAccount{BaseVestingAccount: bva}
	}
	panic(kind)
}

// NewEnv builds the application. variant selects which vesting kinds populate v0..v3.
func NewEnv(variant int) *Env {
	u := prog.NewUniverse()
	o := chain.DefaultOpts()
	o.NAccts = 3
	for i := 0; i < o.NAccts; i++ {
		u.Add(fmt.Sprintf("a%d", i), chain.NewAcct(fmt.Sprintf("a%d", i)).Addr)
	}
	bal := func(a common.Address, n, n2 int64) {
		coins := sdk.NewCoins()
		if n > 0 {
			coins = coins.Add(sdk.NewInt64Coin(chain.Denom, n))
		}
		if n2 > 0 {
			coins = coins.Add(sdk.NewInt64Coin(chain.Denom2, n2))
		}
		o.ExtraBals = append(o.ExtraBals, banktypes.Balance{Address: sdk.AccAddress(a.Bytes()).String(), Coins: coins})
	}
	// contracts
	for i := 0; i < 2; i++ {
		a := addrN(0x10 + i)
		u.Add(fmt.Sprintf("c%d", i), a)
		gc := chain.GenContract{Addr: a, Code: codes[fmt.Sprintf("k%d", i)], Bal: 40, Storage: map[common.Hash]common.Hash{}}
		if i == 0 {
			gc.Storage[slotHash(0)] = common.BigToHash(big.NewInt(1))
			gc.Storage[slotHash(1)] = common.BigToHash(big.NewInt(2))
			gc.Bal2 = 5
		}
		o.Contracts = append(o.Contracts, gc)
	}
	// z0 existing empty base account; y0 holds only the other denomination; x* do not exist
	u.Add("z0", addrN(0x20))
	o.ExtraAccts = append(o.ExtraAccts, authtypes.NewBaseAccount(addrN(0x20).Bytes(), nil, 0, 0))
	u.Add("y0", addrN(0x21))
	o.ExtraAccts = append(o.ExtraAccts, authtypes.NewBaseAccount(addrN(0x21).Bytes(), nil, 0, 0))
	bal(addrN(0x21), 0, 7)
	u.Add("x0", addrN(0x30))
	u.Add("x1", addrN(0x31))
	// vesting accounts; times relative to T0, traces run at T0+5*h (h small) or later
	kinds := []string{"delayed", "continuous", "periodic", "permanent"}
	k := func(i int) string { return kinds[(variant+i)%4] }
	// v0: unexpired, partly locked: balance 80, vesting 50
	u.Add("v0", addrN(0x40))
	o.ExtraAccts = append(o.ExtraAccts, vest(k(0), addrN(0x40), 50, chain.T0-1000, chain.T0+1_000_000))
	bal(addrN(0x40), 80, 3)
	// v1: expired long ago (never a permanent-locked one: that kind does not expire)
	u.Add("v1", addrN(0x41))
	k1 := k(1)
	if k1 == "permanent" {
		k1 = "delayed"
	}
	o.ExtraAccts = append(o.ExtraAccts, vest(k1, addrN(0x41), 50, chain.T0-1000, chain.T0-10))
	bal(addrN(0x41), 60, 0)
	// v2: unexpired, empty (nothing vesting any more, no balance)
	u.Add("v2", addrN(0x42))
	o.ExtraAccts = append(o.ExtraAccts, vest(k(2), addrN(0x42), 0, chain.T0-1000, chain.T0+1_000_000))
	// v3: ends at T0+500: unexpired or expired depending on the block time of the trace
	u.Add("v3", addrN(0x43))
	k3 := k(3)
	if k3 == "permanent" {
		k3 = "continuous"
	}
	o.ExtraAccts = append(o.ExtraAccts, vest(k3, addrN(0x43), 20, chain.T0-1000, chain.T0+500))
	bal(addrN(0x43), 25, 0)
	// module accounts
	u.Add("m0", chain.DistrModule)
	u.Add("m1", chain.BondedPool)
	c := chain.New(o)
	e := &Env{C: c, U: u}
	e.All = u.Names()
	e.Writable = []string{"a0", "a1", "c0", "c1", "z0", "y0", "x0", "x1", "v0", "v1", "v2", "v3", "m0", "m1"}
	return e
}

// rawDigest hashes every key-value pair of every mounted store as seen from ctx (its cache layers included): the
// strongest "nothing else changed" oracle - a write that bypasses the StateDB's current context shows up here even
// when no getter looks at it.
func (e *Env) rawDigest(ctx sdk.Context) string {
	rms, ok := e.C.App.CommitMultiStore().(*rootmulti.Store)
	if !ok {
		panic("root store is not a rootmulti.Store")
	}
	byName := rms.StoreKeysByName()
	names := make([]string, 0, len(byName))
	for n := range byName {
		names = append(names, n)
	}
	sort.Strings(names)
	h := sha256.New()
	for _, name := range names {
		var kv storetypes.KVStore
		func() {
			defer func() { _ = recover() }()
			kv = ctx.MultiStore().GetKVStore(byName[name])
		}()
		if kv == nil {
			continue
		}
		h.Write([]byte("S:" + name))
		it := kv.Iterator(nil, nil)
		for ; it.Valid(); it.Next() {
			h.Write(it.Key())
			h.Write([]byte{0})
			h.Write(it.Value())
			h.Write([]byte{1})
		}
		it.Close()
	}
	return hex.EncodeToString(h.Sum(nil))[:20]
}

// projectWorld reads the committed-world part of ctx for the universe.
func (e *Env) projectWorld(ctx sdk.Context, now int64) trace.M {
	c := e.C
	accts := trace.M{}
	for _, name := range e.All {
		a := e.U.A(name)
		acc := c.App.AccountKeeper.GetAccount(ctx, a.Bytes())
		var bal, bal2 int64
		for _, coin := range c.App.BankKeeper.GetAllBalances(ctx, a.Bytes()) {
			if coin.Denom == chain.Denom {
				bal = trace.I(coin.Amount.BigInt())
			} else {
				bal2 += trace.I(coin.Amount.BigInt())
			}
		}
		m := trace.M{"bal": bal, "bal2": bal2, "seq": int64(0), "ex": acc != nil, "kind": "base", "vend": int64(0), "lock": int64(0)}
		if acc != nil {
			m["seq"] = trace.U(acc.GetSequence())
			if _, ok := acc.(sdk.ModuleAccountI); ok {
				m["kind"] = "module"
			} else if v, ok := acc.(vestexported.VestingAccount); ok {
				m["kind"] = "vesting"
				if _, perm := acc.(*vestingtypes.PermanentLockedAccount); perm {
					m["vend"] = int64(2_000_000_000) // never
				} else {
					m["vend"] = v.GetEndTime() - chain.T0
				}
				m["lock"] = trace.I(v.LockedCoins(time.Unix(now, 0)).AmountOf(chain.Denom).BigInt())
			}
		}
		m["code"] = codeID(c.App.EvmKeeper.GetCode(ctx, c.App.EvmKeeper.GetCodeHash(ctx, a.Bytes())))
		stor := trace.M{}
		c.App.EvmKeeper.ForEachStorage(ctx, a, func(k, v common.Hash) bool {
			stor[prog.SlotName(k)] = trace.I(v.Big())
			return true
		})
		m["stor"] = stor
		accts[name] = m
	}
	allow := trace.M{}
	for _, o := range []string{"a0", "a1", "c0"} {
		for _, s := range []string{"a0", "a1", "c0"} {
			v := c.App.CPCKeeper.GetErc20CpcAllowance(ctx, e.U.A(o), e.U.A(s))
			if v.Sign() != 0 {
				allow[o+"|"+s] = trace.I(v)
			}
		}
	}
	return trace.M{
		"accts":   accts,
		"supply":  trace.I(c.App.BankKeeper.GetSupply(ctx, chain.Denom).Amount.BigInt()),
		"supply2": trace.I(c.App.BankKeeper.GetSupply(ctx, chain.Denom2).Amount.BigInt()),
		"allow":   allow,
	}
}

// observe reads everything through the StateDB's getters (and the current context).
func (e *Env) observe(s evmvm.CStateDB, now int64) trace.M {
	o := e.projectWorld(s.GetCurrentContext(), now)
	accts := o["accts"].(trace.M)
	touched := s.ForTest_CloneTouched()
	var tl []string
	for _, name := range e.All {
		a := e.U.A(name)
		m := accts[name].(trace.M)
		// the same facts through the getters must agree with the stores of the current context
		if g := s.GetBalance(a); trace.I(g) != m["bal"].(int64) {
			m["bal"] = int64(-1) // getter disagrees with the bank store: surfaces as a balance difference
		}
		if g := s.GetNonce(a); trace.U(g) != m["seq"].(int64) {
			m["seq"] = int64(-1)
		}
		if id := codeID(s.GetCode(a)); id != m["code"].(string) {
			m["code"] = "getter:" + id
		}
		m["exist"] = s.Exist(a)
		m["empty"] = s.Empty(a)
		m["sd"] = s.HasSuicided(a)
		cst, tst := trace.M{}, trace.M{}
		als := []string{}
		for i := 0; i < NSlots; i++ {
			k := slotHash(i)
			sn := prog.SlotName(k)
			cst[sn] = trace.I(s.GetCommittedState(a, k).Big())
			tst[sn] = trace.I(s.GetTransientState(a, k).Big())
			if g := s.GetState(a, k); true {
				want := int64(0)
				if v, ok := m["stor"].(trace.M)[sn]; ok {
					want = v.(int64)
				}
				if trace.I(g.Big()) != want {
					m["stor"].(trace.M)[sn] = int64(-1)
				}
			}
			if _, ok := s.SlotInAccessList(a, k); ok {
				als = append(als, sn)
			}
		}
		m["cstor"], m["tstor"], m["als"] = cst, tst, als
		m["al"] = s.AddressInAccessList(a)
		if touched.Has(a) {
			tl = append(tl, name)
		}
	}
	if tl == nil {
		tl = []string{}
	}
	sort.Strings(tl)
	o["touched"] = tl
	o["refund"] = trace.U(s.GetRefund())
	logs := []int64{}
	for _, lg := range s.GetTransactionLogs() {
		logs = append(logs, int64(lg.Data[0])<<8|int64(lg.Data[1]))
	}
	o["logs"] = logs
	o["dg"] = e.rawDigest(s.GetCurrentContext())
	return o
}

// Opts of the generator.
type Opts struct {
	Seed   int64
	Traces int
	MaxOps int
}

// Gen writes opts.Traces traces.
func Gen(out *trace.W, opts Opts) map[string]int {
	stats := map[string]int{}
	var env *Env
	for ti := 0; ti < opts.Traces; ti++ {
		r := rand.New(rand.NewSource(opts.Seed*7919 + int64(ti)))
		if ti%25 == 0 {
			env = NewEnv(int(opts.Seed) + ti/25)
		}
		genOne(out, env, r, fmt.Sprintf("s%d_%d", opts.Seed, ti), opts.MaxOps, stats)
	}
	return stats
}

type runner struct {
	e     *Env
	r     *rand.Rand
	s     evmvm.CStateDB
	now   int64
	out   *trace.W
	nlog  int
	snaps int // number of valid snapshot ids
	hot   []string // two addresses most operations of this trace concentrate on
	stats map[string]int
}

func pick[T any](r *rand.Rand, xs ...T) T { return xs[r.Intn(len(xs))] }

// do performs one operation on the real StateDB, catching panics.
func (x *runner) do(o trace.M, f func() int64) (panicked bool) {
	var ret int64
	func() {
		defer func() {
			if r := recover(); r != nil {
				panicked = true
				o["panicText"] = trunc(fmt.Sprint(r), 120)
			}
		}()
		ret = f()
	}()
	ev := trace.M{"ev": "Op", "o": o, "ret": ret}
	delete(o, "panicText")
	if panicked {
		ev["res"] = "panic"
		x.stats["panics"]++
	} else {
		ev["res"] = "ok"
		ev["obs"] = x.e.observe(x.s, x.now)
	}
	x.out.Emit(ev)
	x.stats["ops"]++
	return panicked
}

func trunc(s string, n int) string {
	if len(s) > n {
		return s[:n]
	}
	return s
}

func genOne(out *trace.W, e *Env, r *rand.Rand, tid string, maxOps int, stats map[string]int) {
	c := e.C
	parent, _ := c.Ctx().CacheContext()
	rel := pick(r, int64(100), 100, 400, 600, 5000)
	now := chain.T0 + rel
	parent = parent.WithBlockTime(time.Unix(now, 0).UTC())
	// up to three consecutive StateDBs over the same parent context (like the transactions of a block)
	for round := 0; round < 1+r.Intn(3); round++ {
		w := e.projectWorld(parent, now)
		out.Emit(trace.M{"ev": "Init", "tid": fmt.Sprintf("%s_%d", tid, round), "now": rel, "w": w, "pdg": e.rawDigest(parent)})
		s := evmvm.NewStateDB(parent, common.Address{}, c.App.EvmKeeper, c.App.AccountKeeper, c.App.BankKeeper)
		pl := []string{"a0", "a1", "c0", "c1", "z0", "y0", "x0", "x1", "v0", "v1", "v3"}
		x := &runner{e: e, r: r, s: s, now: now, out: out, stats: stats, hot: []string{pick(r, pl...), pick(r, pl...)}}
		n := 3 + r.Intn(maxOps)
		dead := false
		for i := 0; i < n && !dead; i++ {
			dead = x.step()
		}
		if dead {
			// the EVM abandons a StateDB that panicked: nothing of it may reach the parent
			out.Emit(trace.M{"ev": "Op", "o": trace.M{"op": "Discard"}, "res": "ok", "ret": 0, "pobs": e.projectWorld(parent, now), "pdg": e.rawDigest(parent)})
			stats["traces"]++
			continue
		}
		if r.Intn(5) == 0 {
			out.Emit(trace.M{"ev": "Op", "o": trace.M{"op": "Discard"}, "res": "ok", "ret": 0, "pobs": e.projectWorld(parent, now), "pdg": e.rawDigest(parent)})
			stats["discards"]++
		} else {
			del := r.Intn(6) != 0
			o := trace.M{"op": "Commit", "deleteEmpty": del}
			var panicked bool
			var perr error
			func() {
				defer func() {
					if rr := recover(); rr != nil {
						panicked = true
					}
				}()
				perr = s.CommitMultiStore(del)
			}()
			if perr != nil {
				panic(perr)
			}
			ev := trace.M{"ev": "Op", "o": o, "ret": 0, "res": "ok"}
			if panicked {
				ev["res"] = "panic"
				out.Emit(ev)
				out.Emit(trace.M{"ev": "Op", "o": trace.M{"op": "Discard"}, "res": "ok", "ret": 0, "pobs": e.projectWorld(parent, now), "pdg": e.rawDigest(parent)})
				stats["commit-panics"]++
				// a panicking commit may have written destroyed accounts into inner branches only; the parent is untouched,
				// but further rounds on it are pointless if the spec disagrees: stop this history
				stats["traces"]++
				return
			}
			ev["pobs"] = e.projectWorld(parent, now)
			out.Emit(ev)
			stats["commits"]++
		}
		stats["traces"]++
	}
}

// step performs one random operation; returns true when the StateDB panicked.
func (x *runner) step() bool {
	r, e, s := x.r, x.e, x.s
	plain := func() string {
		if r.Intn(10) < 6 {
			return pick(r, x.hot...)
		}
		return pick(r, "a0", "a1", "c0", "c1", "z0", "y0", "x0", "x1", "v0", "v1", "v3")
	}
	addr := func() string {
		if r.Intn(3) == 0 {
			return pick(r, e.Writable...)
		}
		return plain()
	}
	slot := func() int { return r.Intn(NSlots) }
	k := r.Intn(100)
	switch {
	case k < 12:
		a, i, v := plain(), slot(), int64(r.Intn(3))
		return x.do(trace.M{"op": "SetState", "a": a, "k": fmt.Sprintf("s%d", i), "v": v}, func() int64 {
			s.SetState(e.U.A(a), slotHash(i), common.BigToHash(big.NewInt(v)))
			return 0
		})
	case k < 20:
		a := addr()
		v := pick(r, int64(0), 1, 2, 7, 30)
		return x.do(trace.M{"op": "AddBalance", "a": a, "v": v}, func() int64 { s.AddBalance(e.U.A(a), big.NewInt(v)); return 0 })
	case k < 28:
		a := addr()
		b := s.GetBalance(e.U.A(a)).Int64()
		v := pick(r, int64(0), 1, 2, b, b/2, b/3, 1, 2)
		if r.Intn(8) == 0 {
			v = b + 1
		}
		if v > b && a != "v0" && a != "v3" && r.Intn(2) == 0 {
			v = b
		}
		return x.do(trace.M{"op": "SubBalance", "a": a, "v": v}, func() int64 { s.SubBalance(e.U.A(a), big.NewInt(v)); return 0 })
	case k < 33:
		a := plain()
		v := int64(r.Intn(3))
		return x.do(trace.M{"op": "SetNonce", "a": a, "v": v}, func() int64 { s.SetNonce(e.U.A(a), uint64(v)); return 0 })
	case k < 37:
		a := plain()
		id := pick(r, "k0", "k1", "k2", "none")
		return x.do(trace.M{"op": "SetCode", "a": a, "code": id}, func() int64 { s.SetCode(e.U.A(a), codes[id]); return 0 })
	case k < 42:
		a, i, v := plain(), slot(), int64(r.Intn(3))
		return x.do(trace.M{"op": "SetTransientState", "a": a, "k": fmt.Sprintf("s%d", i), "v": v}, func() int64 {
			s.SetTransientState(e.U.A(a), slotHash(i), common.BigToHash(big.NewInt(v)))
			return 0
		})
	case k < 47:
		a := addr()
		if r.Intn(3) != 0 {
			a = plain()
		}
		return x.do(trace.M{"op": "CreateAccount", "a": a}, func() int64 { s.CreateAccount(e.U.A(a)); return 0 })
	case k < 53:
		a := addr()
		return x.do(trace.M{"op": "Suicide", "a": a}, func() int64 {
			if s.Suicide(e.U.A(a)) {
				return 1
			}
			return 0
		})
	case k < 57:
		v := int64(1 + r.Intn(3))
		return x.do(trace.M{"op": "AddRefund", "v": v}, func() int64 { s.AddRefund(uint64(v)); return 0 })
	case k < 60:
		v := int64(1 + r.Intn(3))
		if cur := int64(s.GetRefund()); v > cur && r.Intn(4) != 0 {
			if cur == 0 {
				return x.do(trace.M{"op": "AddRefund", "v": v}, func() int64 { s.AddRefund(uint64(v)); return 0 })
			}
			v = cur
		}
		return x.do(trace.M{"op": "SubRefund", "v": v}, func() int64 { s.SubRefund(uint64(v)); return 0 })
	case k < 65:
		a := plain()
		x.nlog++
		n := x.nlog
		return x.do(trace.M{"op": "AddLog", "a": a, "v": n}, func() int64 {
			s.AddLog(&ethtypes.Log{Address: e.U.A(a), Data: []byte{byte(n >> 8), byte(n)}})
			return 0
		})
	case k < 68:
		a := plain()
		if r.Intn(5) != 0 {
			a = x.hot[0]
		}
		return x.do(trace.M{"op": "AddAddressToAccessList", "a": a}, func() int64 { s.AddAddressToAccessList(e.U.A(a)); return 0 })
	case k < 72:
		a, i := plain(), slot()
		if r.Intn(5) != 0 {
			a = x.hot[0]
		}
		return x.do(trace.M{"op": "AddSlotToAccessList", "a": a, "k": fmt.Sprintf("s%d", i)}, func() int64 {
			s.AddSlotToAccessList(e.U.A(a), slotHash(i))
			return 0
		})
	case k < 77:
		a, b := pick(r, "a0", "a1", "c0", "y0"), plain()
		v := int64(1 + r.Intn(4))
		return x.do(trace.M{"op": "ForeignSend", "a": a, "b": b, "v": v}, func() int64 {
			err := e.C.App.BankKeeper.SendCoins(s.GetCurrentContext(), e.U.A(a).Bytes(), e.U.A(b).Bytes(), sdk.NewCoins(sdk.NewCoin(chain.Denom2, sdkmath.NewInt(v))))
			if err != nil {
				return 0
			}
			return 1
		})
	case k < 81:
		a, b := pick(r, "a0", "a1", "c0"), pick(r, "a0", "a1", "c0")
		v := int64(r.Intn(4))
		return x.do(trace.M{"op": "ForeignAllow", "a": a, "b": b, "v": v}, func() int64 {
			e.C.App.CPCKeeper.SetErc20CpcAllowance(s.GetCurrentContext(), e.U.A(a), e.U.A(b), big.NewInt(v))
			return 0
		})
	case k < 91:
		return x.do(trace.M{"op": "Snapshot"}, func() int64 {
			id := s.Snapshot()
			x.snaps = id + 1
			return int64(id)
		})
	default:
		if x.snaps == 0 {
			return x.do(trace.M{"op": "Snapshot"}, func() int64 {
				id := s.Snapshot()
				x.snaps = id + 1
				return int64(id)
			})
		}
		id := r.Intn(x.snaps)
		if r.Intn(2) == 0 {
			id = x.snaps - 1
		}
		return x.do(trace.M{"op": "Revert", "id": id}, func() int64 {
			s.RevertToSnapshot(id)
			x.snaps = id + 1
			return 0
		})
	}
}
