// Package prog is the abstract program language shared with the TLA+ specifications
// (spec/Evm.tla) and its compiler to EVM bytecode.
package prog

import (
	"fmt"
	"sort"

	"github.com/ethereum/go-ethereum/common"
	"github.com/ethereum/go-ethereum/crypto"

	"verifharness/asm"
)

// Op is one abstract operation. The JSON form is what the specifications read.
type Op struct {
	Op      string `json:"op"`
	Slot    string `json:"slot,omitempty"`
	Val     int64  `json:"val"`
	N       int    `json:"n"`
	Kind    string `json:"kind,omitempty"`
	To      string `json:"to,omitempty"`
	Sel     string `json:"sel,omitempty"` // entry of the callee selected by the first calldata byte ("e0" default)
	Value   int64  `json:"value"`
	Addr    string `json:"addr,omitempty"`
	Init    string `json:"init,omitempty"`
	Runtime string `json:"runtime,omitempty"`
	Gas     uint64 `json:"-"` // explicit gas for a CALL (0 = all)
	Salt    uint64 `json:"-"`
	// precompile calls (meaning given by the spec module that uses them)
	Cpc    string        `json:"cpc,omitempty"`
	Method string        `json:"method,omitempty"`
	Args   []interface{} `json:"args,omitempty"`
	Data   []byte        `json:"-"`
}

// Universe maps the names used in traces to addresses and back.
type Universe struct {
	ByName map[string]common.Address
	ByAddr map[common.Address]string
}

// NewUniverse creates an empty universe.
func NewUniverse() *Universe {
	return &Universe{ByName: map[string]common.Address{}, ByAddr: map[common.Address]string{}}
}

// Add registers a name.
func (u *Universe) Add(name string, a common.Address) {
	if old, ok := u.ByName[name]; ok && old != a {
		panic("universe: name reused " + name)
	}
	u.ByName[name] = a
	u.ByAddr[a] = name
}

// A returns the address of a name.
func (u *Universe) A(name string) common.Address {
	a, ok := u.ByName[name]
	if !ok {
		panic("universe: unknown name " + name)
	}
	return a
}

// Name returns the name of an address ("?<hex>" if unknown).
func (u *Universe) Name(a common.Address) string {
	if n, ok := u.ByAddr[a]; ok {
		return n
	}
	return "?" + a.Hex()
}

// Names returns all names sorted.
func (u *Universe) Names() []string {
	var out []string
	for n := range u.ByName {
		out = append(out, n)
	}
	sort.Strings(out)
	return out
}

// SlotNum converts "s3" to 3.
func SlotNum(s string) uint64 {
	var n uint64
	if _, err := fmt.Sscanf(s, "s%d", &n); err != nil {
		panic("bad slot " + s)
	}
	return n
}

// SlotName converts a slot hash to its name.
func SlotName(h common.Hash) string { return fmt.Sprintf("s%d", h.Big().Uint64()) }

// Table is the program table: code id -> entry ("e0".."e9") -> ops; it also remembers the bytecode.
// A contract dispatches on the first calldata byte: byte i selects entry "e<i>", no calldata selects "e0".
type Table struct {
	Ops    map[string]map[string][]Op
	Code   map[string][]byte
	ByHash map[common.Hash]string
}

// NewTable creates an empty table.
func NewTable() *Table {
	return &Table{Ops: map[string]map[string][]Op{}, Code: map[string][]byte{}, ByHash: map[common.Hash]string{}}
}

// SelByte converts "e3" to 3.
func SelByte(sel string) byte {
	if sel == "" {
		return 0
	}
	var n int
	if _, err := fmt.Sscanf(sel, "e%d", &n); err != nil {
		panic("bad selector " + sel)
	}
	return byte(n)
}

// SelData is the calldata selecting an entry.
func SelData(sel string) []byte {
	if b := SelByte(sel); b != 0 {
		return []byte{b}
	}
	return nil
}

// Define compiles a contract with the given entries and registers it under id.
func (t *Table) Define(id string, entries map[string][]Op, u *Universe) []byte {
	code := t.compileContract(entries, u)
	if old, ok := t.Code[id]; ok && string(old) != string(code) {
		panic("program id reused: " + id)
	}
	t.Ops[id] = entries
	t.Code[id] = code
	t.ByHash[crypto.Keccak256Hash(code)] = id
	return code
}

// DefineInit registers a constructor program (single entry e0, compiled without dispatch).
func (t *Table) DefineInit(id string, ops []Op, u *Universe) {
	t.Ops[id] = map[string][]Op{"e0": ops}
	t.Code[id] = t.compileOps(ops, u)
}

// IDOfCode returns the code id for bytecode ("none" for empty, "?..." when unknown).
func (t *Table) IDOfCode(code []byte) string {
	if len(code) == 0 {
		return "none"
	}
	if id, ok := t.ByHash[crypto.Keccak256Hash(code)]; ok {
		return id
	}
	return "?" + crypto.Keccak256Hash(code).Hex()[:10]
}

// InitCode builds init code running the ops of initID as constructor and deploying runtimeID.
func (t *Table) InitCode(initID, runtimeID string) []byte {
	var prefix []byte
	if initID != "none" {
		prefix = t.Code[initID]
	}
	var rt []byte
	if runtimeID != "none" {
		rt = t.Code[runtimeID]
	}
	return asm.InitCodeFor(prefix, rt)
}

// Create2Addr computes the address of a CREATE2 by creator with the op's salt and init code.
func (t *Table) Create2Addr(creator common.Address, o Op) common.Address {
	init := t.InitCode(o.Init, o.Runtime)
	var salt [32]byte
	salt[31] = byte(o.Salt)
	salt[30] = byte(o.Salt >> 8)
	return crypto.CreateAddress2(creator, salt, crypto.Keccak256(init))
}

var kinds = map[string]byte{"CALL": asm.CALL, "CALLCODE": asm.CALLCODE, "DELEGATECALL": asm.DELEGATECALL, "STATICCALL": asm.STATICCALL}

// compileContract lays out: dispatch on calldata[0] ; entries.
func (t *Table) compileContract(entries map[string][]Op, u *Universe) []byte {
	var sels []int
	bodies := map[int][]byte{}
	for s, ops := range entries {
		n := int(SelByte(s))
		sels = append(sels, n)
		body := append([]byte{asm.JUMPDEST, asm.POP}, t.compileOps(ops, u)...)
		body = append(body, asm.STOP)
		bodies[n] = body
	}
	sort.Ints(sels)
	// prologue: PUSH1 0 CALLDATALOAD PUSH1 248 SHR ; per entry: DUP1 PUSH1 i EQ PUSH2 off JUMPI ; POP STOP
	const pro = 6
	const per = 8
	hdr := pro + per*len(sels) + 2
	off := hdr
	offs := map[int]int{}
	for _, n := range sels {
		offs[n] = off
		off += len(bodies[n])
	}
	out := []byte{asm.PUSH1, 0, asm.CALLDATALOAD, asm.PUSH1, 248, 0x1c}
	for _, n := range sels {
		out = append(out, asm.DUP1, asm.PUSH1, byte(n), 0x14, 0x61, byte(offs[n]>>8), byte(offs[n]), asm.JUMPI)
	}
	out = append(out, asm.POP, asm.STOP)
	for _, n := range sels {
		out = append(out, bodies[n]...)
	}
	return out
}

// compileOps turns straight-line ops into bytecode (no terminator added).
func (t *Table) compileOps(ops []Op, u *Universe) []byte {
	a := asm.New()
	for _, o := range ops {
		switch o.Op {
		case "SSTORE":
			a.SStore(SlotNum(o.Slot), uint64(o.Val))
		case "NOP":
			a.SLoad(0)
		case "LOG":
			a.Log(o.N, 7)
		case "CALL":
			data := o.Data
			if data == nil {
				data = SelData(o.Sel)
			}
			a.Call(kinds[o.Kind], u.A(o.To), asm.CallOpts{Value: uint64(o.Value), Gas: o.Gas, Data: data})
		case "CPC":
			a.Call(kinds[o.Kind], u.A(o.To), asm.CallOpts{Value: uint64(o.Value), Gas: o.Gas, Data: o.Data})
		case "CREATE2":
			salt := o.Salt
			a.Create(t.InitCode(o.Init, o.Runtime), uint64(o.Value), &salt, nil)
		case "SELFDESTRUCT":
			a.SelfDestruct(u.A(o.To))
		case "REVERT":
			if o.N == 1 {
				// revert("") of a high-level language: REVERT with the ABI encoding of Error(string) carrying the empty string
				data := append([]byte{0x08, 0xc3, 0x79, 0xa0}, make([]byte, 64)...)
				data[4+31] = 0x20
				a.MemStore(data).PushU(uint64(len(data))).PushU(0).Op(asm.REVERT)
			} else {
				a.Revert()
			}
		case "INVALID":
			a.Op(asm.INVALID)
		case "STOP":
			a.Op(asm.STOP)
		default:
			panic("compile: unknown op " + o.Op)
		}
	}
	return a.B
}
