// Package asm is a tiny EVM assembler (the sandbox has no solc). It produces the
// straight-line call-tree programs the specifications talk about.
package asm

import (
	"math/big"

	"github.com/ethereum/go-ethereum/common"
)

// Opcodes used by the harness.
const (
	STOP           = 0x00
	ADD            = 0x01
	ISZERO         = 0x15
	SHL            = 0x1b
	KECCAK         = 0x20
	ADDRESS        = 0x30
	BALANCE        = 0x31
	ORIGIN         = 0x32
	CALLER         = 0x33
	CALLVALUE      = 0x34
	CALLDATALOAD   = 0x35
	CALLDATASIZE   = 0x36
	CALLDATACOPY   = 0x37
	CODECOPY       = 0x39
	EXTCODESIZE    = 0x3b
	EXTCODEHASH    = 0x3f
	RETURNDATASIZE = 0x3d
	RETURNDATACOPY = 0x3e
	COINBASE       = 0x41
	TIMESTAMP      = 0x42
	NUMBER         = 0x43
	GASLIMIT       = 0x45
	CHAINID        = 0x46
	SELFBALANCE    = 0x47
	BASEFEE        = 0x48
	POP            = 0x50
	MLOAD          = 0x51
	MSTORE         = 0x52
	SLOAD          = 0x54
	SSTORE         = 0x55
	JUMP           = 0x56
	JUMPI          = 0x57
	GAS            = 0x5a
	JUMPDEST       = 0x5b
	PUSH0          = 0x5f
	PUSH1          = 0x60
	DUP1           = 0x80
	SWAP1          = 0x90
	LOG0           = 0xa0
	CREATE         = 0xf0
	CALL           = 0xf1
	CALLCODE       = 0xf2
	RETURN         = 0xf3
	DELEGATECALL   = 0xf4
	CREATE2        = 0xf5
	STATICCALL     = 0xfa
	REVERT         = 0xfd
	INVALID        = 0xfe
	SELFDESTRUCT   = 0xff
)

// A is a program under construction.
type A struct {
	B      []byte
	fixups []int // positions of PUSH2 operands to patch with the fail label
}

// New starts a program.
func New() *A { return &A{} }

// Op appends raw opcodes.
func (a *A) Op(o ...byte) *A { a.B = append(a.B, o...); return a }

// Push pushes a big-endian value (1..32 bytes; leading zeros trimmed, at least one byte).
func (a *A) Push(v []byte) *A {
	for len(v) > 1 && v[0] == 0 {
		v = v[1:]
	}
	if len(v) == 0 {
		v = []byte{0}
	}
	if len(v) > 32 {
		panic("push too long")
	}
	a.B = append(a.B, byte(0x5f+len(v)))
	a.B = append(a.B, v...)
	return a
}

// PushU pushes an unsigned integer.
func (a *A) PushU(v uint64) *A { return a.Push(new(big.Int).SetUint64(v).Bytes()) }

// PushA pushes an address (20 bytes, not trimmed semantics are the same).
func (a *A) PushA(x common.Address) *A { return a.Push(x.Bytes()) }

// SStore slot := val.
func (a *A) SStore(slot, val uint64) *A { return a.PushU(val).PushU(slot).Op(SSTORE) }

// SLoad reads slot and discards it.
func (a *A) SLoad(slot uint64) *A { return a.PushU(slot).Op(SLOAD, POP) }

// Log emits a log with n topics (topic i = 0x100+i) and one 32-byte data word.
func (a *A) Log(nTopics int, data uint64) *A {
	a.PushU(data).PushU(0).Op(MSTORE)
	for i := nTopics; i >= 1; i-- {
		a.PushU(uint64(0x100 + i))
	}
	return a.PushU(32).PushU(0).Op(byte(LOG0 + nTopics))
}

// Balance / ExtCodeSize / ExtCodeHash of x, result discarded.
func (a *A) Balance(x common.Address) *A     { return a.PushA(x).Op(BALANCE, POP) }
func (a *A) ExtCodeSize(x common.Address) *A { return a.PushA(x).Op(EXTCODESIZE, POP) }
func (a *A) ExtCodeHash(x common.Address) *A { return a.PushA(x).Op(EXTCODEHASH, POP) }

// MemStore writes data to memory starting at offset 0 (32-byte chunks).
func (a *A) MemStore(data []byte) *A {
	for off := 0; off < len(data); off += 32 {
		chunk := make([]byte, 32)
		copy(chunk, data[off:])
		a.B = append(a.B, 0x7f)
		a.B = append(a.B, chunk...)
		a.PushU(uint64(off)).Op(MSTORE)
	}
	return a
}

// CallOpts tune a call.
type CallOpts struct {
	Gas   uint64 // 0 = all available (GAS opcode)
	Value uint64 // CALL / CALLCODE only
	Data  []byte
	// After selects what happens with the success flag:
	// "pop" (default), "store:<slot>" via StoreSlot, "require" (revert when 0)
	Require   bool
	Store     bool
	StoreSlot uint64
	RetToMem  uint64 // copy this many return bytes to memory offset 0x200
}

// Call emits a call of the given kind (CALL, CALLCODE, DELEGATECALL, STATICCALL).
func (a *A) Call(kind byte, to common.Address, o CallOpts) *A {
	a.MemStore(o.Data)
	a.PushU(o.RetToMem).PushU(0x200).PushU(uint64(len(o.Data))).PushU(0)
	if kind == CALL || kind == CALLCODE {
		a.PushU(o.Value)
	}
	a.PushA(to)
	if o.Gas == 0 {
		a.Op(GAS)
	} else {
		a.PushU(o.Gas)
	}
	a.Op(kind)
	switch {
	case o.Require:
		a.Op(ISZERO)
		a.B = append(a.B, 0x61, 0, 0) // PUSH2 fail
		a.fixups = append(a.fixups, len(a.B)-2)
		a.Op(JUMPI)
	case o.Store:
		a.PushU(o.StoreSlot).Op(SSTORE)
	default:
		a.Op(POP)
	}
	return a
}

// Create deploys init code with value; the new address is discarded (or stored).
func (a *A) Create(init []byte, value uint64, salt *uint64, storeSlot *uint64) *A {
	a.MemStore(init)
	if salt != nil {
		a.PushU(*salt)
	}
	a.PushU(uint64(len(init))).PushU(0).PushU(value)
	if salt != nil {
		a.Op(CREATE2)
	} else {
		a.Op(CREATE)
	}
	if storeSlot != nil {
		a.PushU(*storeSlot).Op(SSTORE)
	} else {
		a.Op(POP)
	}
	return a
}

// SelfDestruct to beneficiary.
func (a *A) SelfDestruct(b common.Address) *A { return a.PushA(b).Op(SELFDESTRUCT) }

// Revert with empty data.
func (a *A) Revert() *A { return a.PushU(0).PushU(0).Op(REVERT) }

// Return n bytes of memory from offset 0.
func (a *A) Return(n uint64) *A { return a.PushU(n).PushU(0).Op(RETURN) }

// ReturnWord returns one 32-byte word.
func (a *A) ReturnWord(v uint64) *A { return a.PushU(v).PushU(0).Op(MSTORE).Return(32) }

// ReturnMem returns n bytes from memory offset off.
func (a *A) ReturnMem(off, n uint64) *A { return a.PushU(n).PushU(off).Op(RETURN) }

// Bytes finalises the program: appends STOP and, when needed, the shared failure block.
func (a *A) Bytes() []byte {
	out := append([]byte{}, a.B...)
	if len(a.fixups) > 0 {
		out = append(out, STOP)
		lbl := len(out)
		out = append(out, JUMPDEST, PUSH1, 0, PUSH1, 0, REVERT)
		for _, p := range a.fixups {
			out[p] = byte(lbl >> 8)
			out[p+1] = byte(lbl)
		}
	}
	return out
}

// InitCodeFor returns init code that (optionally runs a constructor prefix and) deploys runtime.
func InitCodeFor(prefix []byte, runtime []byte) []byte {
	a := New().Op(prefix...)
	// CODECOPY(destOffset=0, offset=<pos>, size=len) ; RETURN(0,len)
	// layout: prefix | PUSH2 len PUSH2 pos PUSH1 0 CODECOPY PUSH2 len PUSH1 0 RETURN | runtime
	hdr := 3 + 3 + 2 + 1 + 3 + 2 + 1
	pos := len(a.B) + hdr
	l := len(runtime)
	a.Op(0x61, byte(l>>8), byte(l), 0x61, byte(pos>>8), byte(pos), PUSH1, 0, CODECOPY, 0x61, byte(l>>8), byte(l), PUSH1, 0, RETURN)
	return append(a.B, runtime...)
}
