package misc

import (
	"encoding/hex"
	"fmt"
	"sort"
	"strings"
	"time"

	sdkmath "cosmossdk.io/math"
	storetypes "cosmossdk.io/store/types"
	cmtproto "github.com/cometbft/cometbft/proto/tendermint/types"
	sdk "github.com/cosmos/cosmos-sdk/types"
	"github.com/cosmos/cosmos-sdk/types/query"
	authtypes "github.com/cosmos/cosmos-sdk/x/auth/types"
	banktypes "github.com/cosmos/cosmos-sdk/x/bank/types"
	govtypes "github.com/cosmos/cosmos-sdk/x/gov/types"
	govv1 "github.com/cosmos/cosmos-sdk/x/gov/types/v1"
	"github.com/ethereum/go-ethereum/common"
	"github.com/ethereum/go-ethereum/crypto"

	chainapp "github.com/EscanBE/evermint/v12/app"
	"github.com/EscanBE/evermint/v12/app/params"
	cpckeeper "github.com/EscanBE/evermint/v12/x/cpc/keeper"
	cpctypes "github.com/EscanBE/evermint/v12/x/cpc/types"

	"verifharness/chain"
)

// Denominations of the registry scenarios.
const (
	DenomZero  = "uzero"  // never minted: zero supply
	DenomThree = "uthree" // positive supply, held by one account
	DenomFour  = "ufour"  // positive supply, held by the same single account
)

// GovPatch makes governance fast and cheap: 1 wei deposit, 10 s voting period (2 blocks).
func GovPatch(enc params.EncodingConfig, gs chainapp.GenesisState) {
	g := govv1.DefaultGenesisState()
	vp := 10 * time.Second
	evp := 5 * time.Second
	g.Params.MinDeposit = sdk.NewCoins(sdk.NewInt64Coin(chain.Denom, 1))
	g.Params.ExpeditedMinDeposit = sdk.NewCoins(sdk.NewInt64Coin(chain.Denom, 2))
	g.Params.MaxDepositPeriod = &vp
	g.Params.VotingPeriod = &vp
	g.Params.ExpeditedVotingPeriod = &evp
	g.Params.MinInitialDepositRatio = sdkmath.LegacyZeroDec().String()
	gs[govtypes.ModuleName] = enc.Codec.MustMarshalJSON(g)
}

// Roles of the harness accounts in registry scenarios.
const (
	iVal   = 0 // validator operator, votes in governance
	iW     = 1 // whitelisted deployer at genesis
	iN     = 2 // not whitelisted
	iProbe = 3 // sends the probe transactions
	iEOA   = 4 // a plain account that is probed as a call target
	iW2    = 5 // second deployer candidate
)

// ProberAcct sends the probe transactions; its balance is never logged (it is far above TLC's integers).
var ProberAcct = chain.NewAcct("prober")

// RegOpts describe the genesis of a registry scenario.
type RegOpts struct {
	Erc20Native bool
	Staking     bool
	Whitelist   []int // indices of accounts
	ManyDenoms  int   // additional bank denominations ManyDenom(0..n-1) with positive supply
}

// ManyDeployer is the whitelisted deployer of the "many contracts" scenario.
var ManyDeployer = chain.NewAcct("wmany")

// ManyDenom is the i-th additional denomination of the "many contracts" scenario.
func ManyDenom(i int) string { return fmt.Sprintf("many%03d", i) }

// NewRegChain builds the chain of a registry scenario.
func NewRegChain(o RegOpts) *chain.Chain {
	co := chain.DefaultOpts()
	co.NAccts = 6
	co.Contracts = ProxyContracts()
	co.CpcDeployErc20Native = o.Erc20Native
	co.CpcDeployStaking = o.Staking
	for _, i := range o.Whitelist {
		co.CpcWhitelist = append(co.CpcWhitelist, chain.NewAcct(fmt.Sprintf("a%d", i)).Acc().String())
	}
	holder := chain.NewAcct("holder3")
	co.ExtraAccts = []authtypes.GenesisAccount{authtypes.NewBaseAccount(holder.Acc(), nil, 0, 0), authtypes.NewBaseAccount(ProberAcct.Acc(), nil, 0, 0)}
	// the single holder of uthree / ufour also has wei for gas: it can burn the whole supply of those denominations
	held := sdk.NewCoins(sdk.NewInt64Coin(DenomThree, 77), sdk.NewInt64Coin(DenomFour, 55), sdk.NewInt64Coin(chain.Denom, 50_000_000))
	for i := 0; i < o.ManyDenoms; i++ {
		held = held.Add(sdk.NewInt64Coin(ManyDenom(i), 5))
	}
	if o.ManyDenoms > 0 { // a whitelisted deployer rich enough to pay for more than a hundred deployments (never logged)
		co.CpcWhitelist = append(co.CpcWhitelist, ManyDeployer.Acc().String())
		co.ExtraAccts = append(co.ExtraAccts, authtypes.NewBaseAccount(ManyDeployer.Acc(), nil, 0, 0))
		co.ExtraBals = append(co.ExtraBals, banktypes.Balance{Address: ManyDeployer.Acc().String(), Coins: sdk.NewCoins(sdk.NewInt64Coin(chain.Denom, 10_000_000_000_000))})
	}
	co.ExtraBals = append(co.ExtraBals, banktypes.Balance{Address: holder.Acc().String(), Coins: held},
		banktypes.Balance{Address: ProberAcct.Acc().String(), Coins: sdk.NewCoins(sdk.NewInt64Coin(chain.Denom, 1_000_000_000_000_000))})
	co.Patch = GovPatch
	return chain.New(co)
}

// Uncached is a context writing straight into the committed multistore between two blocks (keeper-level
// operations for which no message exists).  The caller delivers an empty block afterwards.
func Uncached(c *chain.Chain) sdk.Context {
	return c.App.BaseApp.NewUncachedContext(false, cmtproto.Header{Height: c.Height, Time: chain.BlockTime(c.Height), ChainID: chain.ChainID})
}

func cpcKeeper(c *chain.Chain) cpckeeper.Keeper { return c.App.CPCKeeper }

// DynAddr is the k-th dynamic precompile address (module account nonce k).
func DynAddr(k uint64) common.Address { return crypto.CreateAddress(cpctypes.CpcModuleAddress, k) }

// TxOutcome of one Cosmos transaction delivered alone in a block.
type TxOutcome struct {
	Code      uint32
	Codespace string
	Log       string
	Data      []byte
	Panic     string
}

// DeliverCosmos signs msgs with a and delivers them in one block.
func DeliverCosmos(c *chain.Chain, a *chain.Acct, msgs []sdk.Msg, o chain.CosmosTxOpts) TxOutcome {
	if o.GasPrice == 0 {
		o.GasPrice = c.BaseFee().Int64() + 5
	}
	if o.Gas == 0 {
		o.Gas = 500000
	}
	tx, err := c.CosmosTx(a, msgs, o)
	if err != nil {
		return TxOutcome{Code: 99999, Log: "build: " + err.Error()}
	}
	bo := c.Deliver(tx)
	if bo.Panic != nil || bo.Err != nil {
		return TxOutcome{Code: 99998, Panic: fmt.Sprint(bo.Panic, bo.Err)}
	}
	r := bo.Res.TxResults[0]
	return TxOutcome{Code: r.Code, Codespace: r.Codespace, Log: r.Log, Data: r.Data}
}

// GovUpdateParams runs a real governance proposal carrying MsgUpdateParams with authority = gov module
// account: submit with a full deposit, the validator's operator votes yes, voting period passes, the
// gov EndBlocker executes the message.  Returns the final proposal status and the failure reason.
func GovUpdateParams(c *chain.Chain, p cpctypes.Params) (status string, reason string) {
	val := c.Accts[iVal]
	gov := authtypes.NewModuleAddress(govtypes.ModuleName).String()
	msg := &cpctypes.MsgUpdateParams{Authority: gov, NewParams: p}
	sub, err := govv1.NewMsgSubmitProposal([]sdk.Msg{msg}, sdk.NewCoins(sdk.NewInt64Coin(chain.Denom, 1)), val.Acc().String(), "", "cpc params", "update", false)
	if err != nil {
		return "build-error", err.Error()
	}
	out := DeliverCosmos(c, val, []sdk.Msg{sub}, chain.CosmosTxOpts{})
	if out.Code != 0 {
		return "submit-rejected", trunc(out.Log, 200)
	}
	var td sdk.TxMsgData
	if err := td.Unmarshal(out.Data); err != nil || len(td.MsgResponses) != 1 {
		return "submit-noid", ""
	}
	var sr govv1.MsgSubmitProposalResponse
	if err := sr.Unmarshal(td.MsgResponses[0].Value); err != nil {
		return "submit-noid", err.Error()
	}
	vote := govv1.NewMsgVote(val.Acc(), sr.ProposalId, govv1.OptionYes, "")
	if out := DeliverCosmos(c, val, []sdk.Msg{vote}, chain.CosmosTxOpts{}); out.Code != 0 {
		return "vote-rejected", trunc(out.Log, 200)
	}
	for i := 0; i < 4; i++ {
		c.Deliver()
		prop, err := c.App.GovKeeper.Proposals.Get(c.Ctx(), sr.ProposalId)
		if err != nil {
			return "proposal-missing", err.Error()
		}
		switch prop.Status {
		case govv1.StatusPassed:
			return "passed", ""
		case govv1.StatusFailed:
			return "failed", trunc(prop.FailedReason, 200)
		case govv1.StatusRejected:
			return "rejected", ""
		}
	}
	return "still-voting", ""
}

// SetDisabled flips the disabled flag through the keeper API (there is no message for it).
func SetDisabled(c *chain.Chain, addr common.Address, disabled bool) (res string) {
	defer func() {
		if r := recover(); r != nil {
			res = "panic: " + trunc(fmt.Sprint(r), 120)
		}
	}()
	ctx := Uncached(c)
	k := cpcKeeper(c)
	meta := k.GetCustomPrecompiledContractMeta(ctx, addr)
	if meta == nil {
		return "absent"
	}
	meta.Disabled = disabled
	if err := k.SetCustomPrecompiledContractMeta(ctx, *meta, false); err != nil {
		return "error: " + trunc(err.Error(), 120)
	}
	c.Deliver()
	return "ok"
}

// Holder is the only account holding DenomThree and DenomFour.
var Holder = chain.NewAcct("holder3")

// MintBack mints amount of denom to the evm module account (a minter) and sends it to Holder: there is no message that mints an
// arbitrary denomination, so the supply is restored through the bank keeper between two blocks.
func MintBack(c *chain.Chain, denom string, amount int64) (res string) {
	defer func() {
		if r := recover(); r != nil {
			res = "panic: " + trunc(fmt.Sprint(r), 120)
		}
	}()
	ctx := Uncached(c)
	coins := sdk.NewCoins(sdk.NewInt64Coin(denom, amount))
	if err := c.App.BankKeeper.MintCoins(ctx, "evm", coins); err != nil {
		return "error: " + trunc(err.Error(), 120)
	}
	if err := c.App.BankKeeper.SendCoinsFromModuleToAccount(ctx, "evm", Holder.Acc(), coins); err != nil {
		return "error: " + trunc(err.Error(), 120)
	}
	c.Deliver()
	return "ok"
}

// Retype tries to overwrite a stored contract with another type through the keeper API.
func Retype(c *chain.Chain, addr common.Address, newDeployment bool) (res string) {
	defer func() {
		if r := recover(); r != nil {
			res = "panic: " + trunc(fmt.Sprint(r), 120)
		}
		c.Deliver()
	}()
	ctx, _ := Uncached(c).CacheContext() // a refused write must not leak: the keeper may have written before it panics
	k := cpcKeeper(c)
	meta := k.GetCustomPrecompiledContractMeta(ctx, addr)
	if meta == nil {
		return "absent"
	}
	m2 := *meta
	if meta.CustomPrecompiledType == cpctypes.CpcTypeBech32 {
		m2.CustomPrecompiledType = cpctypes.CpcTypeStaking
		m2.TypedMeta = `{"symbol":"X","decimals":6}`
	} else {
		m2.CustomPrecompiledType = cpctypes.CpcTypeBech32
		m2.TypedMeta = cpctypes.EmptyTypedMeta
	}
	if err := k.SetCustomPrecompiledContractMeta(ctx, m2, newDeployment); err != nil {
		return "error: " + trunc(err.Error(), 120)
	}
	return "ok"
}

// RawSetVersion writes cpc params with an arbitrary protocol version straight into the store: the pinned
// tree knows only version 1, so a later protocol version (which a software upgrade would introduce) can
// only be fabricated below the keeper API.
func RawSetVersion(c *chain.Chain, ver uint32) {
	ctx := Uncached(c)
	k := cpcKeeper(c)
	p := k.GetParams(ctx)
	p.ProtocolVersion = ver
	bz, err := c.App.AppCodec().Marshal(&p)
	if err != nil {
		panic(err)
	}
	ctx.KVStore(c.App.GetKey(cpctypes.StoreKey)).Set(cpctypes.KeyPrefixParams, bz)
	c.Deliver()
}

// RawMeta is one metadata record as found in the store.
type RawMeta struct {
	KeyAddr common.Address
	Meta    cpctypes.CustomPrecompiledContractMeta
}

// RegDump is the raw content of the cpc store plus the views through the public query server.
type RegDump struct {
	Metas     []RawMeta                                       // raw prefix 2
	Index     map[string]common.Address                       // raw prefix 3
	Allow     map[string]string                               // raw prefix 4: hex(owner|spender) -> hex amount
	Params    cpctypes.Params                                 // raw prefix 1 decoded
	Other     int                                             // keys under unknown prefixes
	QMetas    []cpctypes.WrappedCustomPrecompiledContractMeta // gRPC CustomPrecompiledContracts (all pages)
	QParams   cpctypes.Params
	KMetas    []cpctypes.CustomPrecompiledContractMeta // keeper iteration (what NewEVM wires)
	Nonce     uint64
	ModuleAcc bool
}

// DumpReg reads the registry from committed state.
func DumpReg(c *chain.Chain) RegDump { return dumpRegCtx(c, c.Ctx()) }

func dumpRegCtx(c *chain.Chain, ctx sdk.Context) RegDump {
	d := RegDump{Index: map[string]common.Address{}, Allow: map[string]string{}}
	st := ctx.KVStore(c.App.GetKey(cpctypes.StoreKey))
	it := storetypes.KVStorePrefixIterator(st, nil)
	for ; it.Valid(); it.Next() {
		k, v := it.Key(), it.Value()
		switch {
		case len(k) == 1 && k[0] == cpctypes.KeyPrefixParams[0]:
			c.App.AppCodec().MustUnmarshal(v, &d.Params)
		case k[0] == cpctypes.KeyPrefixCustomPrecompiledContractMeta[0] && len(k) == 21:
			var m cpctypes.CustomPrecompiledContractMeta
			c.App.AppCodec().MustUnmarshal(v, &m)
			d.Metas = append(d.Metas, RawMeta{KeyAddr: common.BytesToAddress(k[1:]), Meta: m})
		case k[0] == cpctypes.KeyPrefixErc20CpcDenomToAddress[0]:
			d.Index[string(k[1:])] = common.BytesToAddress(v)
		case k[0] == cpctypes.KeyPrefixErc20CpcAllowance[0] && len(k) == 41:
			d.Allow[hex.EncodeToString(k[1:])] = hex.EncodeToString(v)
		default:
			d.Other++
		}
	}
	it.Close()
	qs := cpckeeper.NewQueryServerImpl(cpcKeeper(c))
	var next []byte
	for page := 0; page < 100; page++ {
		rsp, err := qs.CustomPrecompiledContracts(ctx, &cpctypes.QueryCustomPrecompiledContractsRequest{Pagination: &query.PageRequest{Key: next, Limit: 3}})
		if err != nil {
			panic(err)
		}
		d.QMetas = append(d.QMetas, rsp.Contracts...)
		if rsp.Pagination == nil || len(rsp.Pagination.NextKey) == 0 {
			break
		}
		next = rsp.Pagination.NextKey
	}
	if rsp, err := qs.Params(ctx, &cpctypes.QueryParamsRequest{}); err == nil {
		d.QParams = rsp.Params
	}
	d.KMetas = cpcKeeper(c).GetAllCustomPrecompiledContractsMeta(ctx)
	if ma := c.App.AccountKeeper.GetAccount(ctx, authtypes.NewModuleAddress(cpctypes.ModuleName)); ma != nil {
		d.ModuleAcc = true
		d.Nonce = ma.GetSequence()
	}
	return d
}

// QueryByDenom is the public reverse lookup.
func QueryByDenom(c *chain.Chain, denom string) (common.Address, string) {
	qs := cpckeeper.NewQueryServerImpl(cpcKeeper(c))
	rsp, err := qs.Erc20CustomPrecompiledContractByDenom(c.Ctx(), &cpctypes.QueryErc20CustomPrecompiledContractByDenomRequest{MinDenom: denom})
	if err != nil {
		if strings.Contains(err.Error(), "NotFound") {
			return common.Address{}, "none"
		}
		return common.Address{}, "error"
	}
	return common.HexToAddress(rsp.Contract.Address), "ok"
}

func sortedStrings(m map[string]bool) []string {
	var out []string
	for k := range m {
		out = append(out, k)
	}
	sort.Strings(out)
	return out
}
