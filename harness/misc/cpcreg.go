package misc

import (
	"encoding/hex"
	"encoding/json"
	"fmt"
	"math/big"
	"math/rand"
	"sort"
	"strings"

	sdk "github.com/cosmos/cosmos-sdk/types"
	"github.com/ethereum/go-ethereum/common"
	ethtypes "github.com/ethereum/go-ethereum/core/types"
	corevm "github.com/ethereum/go-ethereum/core/vm"

	cpcabi "github.com/EscanBE/evermint/v12/x/cpc/abi"
	cpctypes "github.com/EscanBE/evermint/v12/x/cpc/types"

	"verifharness/chain"
	"verifharness/obs"
	"verifharness/trace"
)

// Toks names arbitrary strings by short tokens so that TLC only ever compares tokens.
type Toks struct {
	m   map[string]string
	Rev []string
}

func NewToks() *Toks { return &Toks{m: map[string]string{}} }

// T returns the token of s.
func (t *Toks) T(s string) string {
	if k, ok := t.m[s]; ok {
		return k
	}
	k := fmt.Sprintf("s%d", len(t.Rev))
	t.m[s] = k
	t.Rev = append(t.Rev, s)
	return k
}

var selName = common.FromHex("0x06fdde03")

func mustPack(name string) []byte {
	bz, err := cpcabi.Bech32CpcInfo.ABI.Pack(name)
	if err != nil {
		panic(err)
	}
	return bz
}

// Inputs probed at every candidate address.
var Inputs = map[string][]byte{"in1": selName, "in2": mustPack("bech32AccountAddrPrefix")}

func addrPlus(a common.Address, d int64) common.Address {
	v := new(big.Int).SetBytes(a.Bytes())
	v.Add(v, big.NewInt(d))
	return common.BigToAddress(v)
}

// Universe of one registry run: names of candidate addresses, accounts and denominations.
type Universe struct {
	Names map[common.Address]string
	Cands []string // candidate names in probing order
	Addr  map[string]common.Address
	NDyn  int
}

// NewUniverse names the candidate addresses: the fixed precompile addresses and their neighbours, the first nDyn
// dynamic addresses and the neighbours of the first, the standard precompiles 0x1..0x9, 0x0, 0xa, an EOA, the cpc
// module account and a never-used address.
func NewUniverse(c *chain.Chain, nDyn int) *Universe {
	u := &Universe{Names: map[common.Address]string{}, Addr: map[string]common.Address{}, NDyn: nDyn}
	add := func(n string, a common.Address) {
		u.Names[a] = n
		u.Addr[n] = a
		u.Cands = append(u.Cands, n)
	}
	add("stk", cpctypes.CpcStakingFixedAddress)
	add("stk-1", addrPlus(cpctypes.CpcStakingFixedAddress, -1))
	add("stk+1", addrPlus(cpctypes.CpcStakingFixedAddress, 1))
	add("b32", cpctypes.CpcBech32FixedAddress)
	add("b32+1", addrPlus(cpctypes.CpcBech32FixedAddress, 1))
	for k := 0; k < nDyn; k++ {
		add(fmt.Sprintf("dyn%d", k), DynAddr(uint64(k)))
	}
	add("dyn0-1", addrPlus(DynAddr(0), -1))
	add("dyn0+1", addrPlus(DynAddr(0), 1))
	for i := 0; i <= 10; i++ {
		add(fmt.Sprintf("p%d", i), common.BigToAddress(big.NewInt(int64(i))))
	}
	add("eoa", c.Accts[iEOA].Addr)
	add("mod", cpctypes.CpcModuleAddress)
	add("fresh", common.HexToAddress("0x00000000000000000000000000000000fe5400aa"))
	// further dynamic addresses have names (so that records at them are recognised) but are probed only when registered
	for k := nDyn; k < MaxDynNames; k++ {
		a := DynAddr(uint64(k))
		u.Names[a] = fmt.Sprintf("dyn%d", k)
		u.Addr[fmt.Sprintf("dyn%d", k)] = a
	}
	return u
}

// MaxDynNames is the number of named dynamic addresses (TraceCpcRegistry!TraceDynAddrs has the same length).
const MaxDynNames = 160

func (u *Universe) name(a common.Address) string {
	if n, ok := u.Names[a]; ok {
		return n
	}
	return "x:" + strings.ToLower(a.Hex())
}

func typeName(t uint32) string {
	switch t {
	case cpctypes.CpcTypeErc20:
		return "erc20"
	case cpctypes.CpcTypeStaking:
		return "staking"
	case cpctypes.CpcTypeBech32:
		return "bech32"
	}
	return fmt.Sprintf("type%d", t)
}

func typeOfQueryName(s string) string {
	switch s {
	case "ERC20":
		return "erc20"
	case "Staking":
		return "staking"
	case "Bech32":
		return "bech32"
	}
	return "type:" + s
}

// RegRun is one registry scenario (one real chain plus naming).
type RegRun struct {
	C      *chain.Chain
	U      *Universe
	T      *Toks
	Who    map[string]*chain.Acct // "w", "n", "w2"
	Denoms []string
	step   int
}

func (r *RegRun) whoName(bech string) string {
	for n, a := range r.Who {
		if a.Acc().String() == bech {
			return n
		}
	}
	return r.T.T(bech)
}

func recTok(t *Toks, addr common.Address, typ string, name, typed string, disabled bool) string {
	return t.T(fmt.Sprintf("%s|%s|%s|%s|%v", strings.ToLower(addr.Hex()), typ, name, typed, disabled))
}

// Project renders the registry of the committed state.
func (r *RegRun) Project() trace.M {
	d := DumpReg(r.C)
	meta := trace.M{}
	rawTok, qTok, kTok := trace.M{}, trace.M{}, trace.M{}
	for _, m := range d.Metas {
		a := common.BytesToAddress(m.Meta.Address)
		rec := trace.M{"type": typeName(m.Meta.CustomPrecompiledType), "name": r.T.T(m.Meta.Name), "disabled": m.Meta.Disabled,
			"keyOk": a == m.KeyAddr && len(m.Meta.Address) == 20, "denom": "none", "symbol": "none", "decimals": -1}
		var tm struct {
			Symbol   *string `json:"symbol"`
			Decimals *int64  `json:"decimals"`
			MinDenom *string `json:"min_denom"`
		}
		if err := json.Unmarshal([]byte(m.Meta.TypedMeta), &tm); err != nil {
			rec["symbol"] = "undecodable"
		} else {
			if tm.Symbol != nil {
				rec["symbol"] = r.T.T(*tm.Symbol)
			}
			if tm.Decimals != nil {
				rec["decimals"] = *tm.Decimals
			}
			if tm.MinDenom != nil {
				rec["denom"] = r.denomName(*tm.MinDenom)
			}
		}
		meta[r.U.name(m.KeyAddr)] = rec
		rawTok[r.U.name(m.KeyAddr)] = recTok(r.T, a, typeName(m.Meta.CustomPrecompiledType), m.Meta.Name, m.Meta.TypedMeta, m.Meta.Disabled)
	}
	for _, q := range d.QMetas {
		a := common.HexToAddress(q.Address)
		if typeOfQueryName(q.TypeName) != typeName(q.Meta.CustomPrecompiledType) || common.BytesToAddress(q.Meta.Address) != a {
			qTok[r.U.name(a)] = "incoherent"
			continue
		}
		qTok[r.U.name(a)] = recTok(r.T, a, typeOfQueryName(q.TypeName), q.Meta.Name, q.Meta.TypedMeta, q.Meta.Disabled)
	}
	for _, m := range d.KMetas {
		a := common.BytesToAddress(m.Address)
		kTok[r.U.name(a)] = recTok(r.T, a, typeName(m.CustomPrecompiledType), m.Name, m.TypedMeta, m.Disabled)
	}
	idx := trace.M{}
	for dn, a := range d.Index {
		idx[r.denomName(dn)] = r.U.name(a)
	}
	idxQ := trace.M{}
	for _, dn := range r.Denoms {
		a, st := QueryByDenom(r.C, dn)
		if st == "ok" {
			idxQ[r.denomName(dn)] = r.U.name(a)
		} else if st != "none" {
			idxQ[r.denomName(dn)] = "query-error"
		}
	}
	wl := func(p cpctypes.Params) []string {
		out := []string{}
		for _, w := range p.WhitelistedDeployers {
			out = append(out, r.whoName(w))
		}
		return out
	}
	sp := trace.M{}
	for _, dn := range r.Denoms {
		sp[r.denomName(dn)] = r.C.App.BankKeeper.GetSupply(r.C.Ctx(), dn).Amount.IsPositive()
	}
	return trace.M{"meta": meta, "rawTok": rawTok, "qTok": qTok, "kTok": kTok, "idx": idx, "idxQ": idxQ,
		"wl": wl(d.Params), "ver": trace.U(uint64(d.Params.ProtocolVersion)), "wlQ": wl(d.QParams), "verQ": trace.U(uint64(d.QParams.ProtocolVersion)),
		"nonce": trace.U(d.Nonce), "modAcc": d.ModuleAcc, "allow": len(d.Allow), "other": d.Other, "supplyPos": sp}
}

func (r *RegRun) denomName(d string) string {
	for _, k := range r.Denoms {
		if k == d {
			return d
		}
	}
	return r.T.T(d)
}

// ---------------------------------------------------------------------------------------------
// probes
// ---------------------------------------------------------------------------------------------

func hClass(t *Toks, seen bool, errc string, out []byte) string {
	if !seen {
		return "unseen"
	}
	switch {
	case errc == "":
		return dataClass(t, out)
	case errc == "revert":
		return "fail:revert"
	case strings.Contains(errc, corevm.ErrDisabledPrecompile.Error()):
		return "fail:disabled"
	case errc == "oog":
		return "fail:oog"
	default:
		return "fail:other"
	}
}

func dataClass(t *Toks, out []byte) string {
	if len(out) == 0 {
		return "empty"
	}
	if s, ok := DecodeString(out); ok {
		return "data:" + t.T(s)
	}
	return "data:" + t.T("0x"+hex.EncodeToString(out))
}

// uClass is the user-visible class of one probe.
func uClass(t *Toks, mode, via string, raw Raw) string {
	if raw.Detail != "" && !raw.Admit {
		return "refused"
	}
	switch mode {
	case "check":
		if raw.Admit {
			return "admitted"
		}
		return "refused"
	case "estimate":
		if raw.UOk {
			return "ok"
		}
		return "fail"
	}
	if !raw.UOk {
		return "fail" // for a direct call: the VM error of the root frame
	}
	if via == "direct" {
		return dataClass(t, raw.URet)
	}
	if len(raw.URet) < 32 {
		return "proxy-garbage"
	}
	if new(big.Int).SetBytes(raw.URet[:32]).Sign() == 0 {
		return "fail"
	}
	return dataClass(t, raw.URet[32:])
}

// StdRef is what go-ethereum's own standard precompile returns for an input (the reference for 0x1..0x9).
func StdRef(t *Toks, a common.Address, input []byte) string {
	p, ok := corevm.PrecompiledContractsBerlin[a]
	if !ok {
		return "none"
	}
	if p.RequiredGas(input) > probeGas {
		return "fail:oog"
	}
	out, err := p.Run(input)
	if err != nil {
		return "fail:other"
	}
	return dataClass(t, out)
}

// ProbePlan selects which probes a node gets.
type ProbePlan struct {
	Sel  []string // non-full lines: probe only these addresses in all modes (nil = every registered contract)
	Full bool     // every candidate x every mode x (name(), hrp view, name() through a proxy); otherwise see ProbeLite
}

// ProbeLite probes every candidate with a direct name() call through eth_call only: addr -> "h|u".
func (r *RegRun) ProbeLite() (trace.M, int) {
	p := &Prober{C: r.C, From: ProberAcct}
	out := trace.M{}
	names := append([]string{}, r.U.Cands...)
	for _, n := range r.registered() {
		if _, isCand := out[n]; !isCand {
			names = append(names, n)
		}
	}
	for _, n := range names {
		if _, done := out[n]; done {
			continue
		}
		a, ok := r.U.Addr[n]
		if !ok {
			continue // a record at an address outside the universe: the projection laws report it
		}
		raw := p.EthCall(Req{a, Inputs["in1"], "direct", 0})
		out[n] = hClass(r.T, raw.HSeen, raw.HErr, raw.HOut) + "|" + uClass(r.T, "eth_call", "direct", raw)
	}
	return out, len(out)
}

// Probe runs the probe matrix against the current committed state and returns the "probe" object:
//
//	addr -> { "d1": [6 x "h|u"], "d2": [...], "x1": [...], "xk": [6 x proxy kind] }   (index = mode order of Modes)
// cell is one probe: a candidate address, the column and mode it is reported under, and the request.
type cell struct {
	addr, col string
	mode      int
	q         Req
	skip      bool
}

// shortInputs are calldata shorter than a 4-byte selector.
var shortInputs = map[string][]byte{"s1": {0x06}, "s2": {0x06, 0xfd}, "s3": {0x06, 0xfd, 0xde}}

// inputBytes maps an input name to calldata: in1 = name(), in2 = bech32 prefix view, e = empty, s1..s3 = 1-3 bytes.
func inputBytes(name string) []byte {
	if b, ok := Inputs[name]; ok {
		return b
	}
	if b, ok := shortInputs[name]; ok {
		return b
	}
	if name == "e" {
		return []byte{}
	}
	panic("input " + name)
}

// runCells executes the probes (query-like modes first, then CheckTx, then real blocks) and returns one
// "hook-class|user-class" string per cell.
func (r *RegRun) runCells(cells []cell) []string {
	p := &Prober{C: r.C, From: ProberAcct}
	res := make([]Raw, len(cells))
	n0 := r.C.Seq(p.From.Addr) // committed nonce: nothing has touched the check state since the last commit
	for i, c := range cells {
		if c.skip {
			continue
		}
		switch Modes[c.mode] {
		case "simulate":
			res[i] = safely(func() Raw { return p.Simulate(c.q, n0) })
		case "eth_call":
			res[i] = safely(func() Raw { return p.EthCall(c.q) })
		case "estimate":
			res[i] = safely(func() Raw { return p.Estimate(c.q) })
		case "trace":
			res[i] = safely(func() Raw { return p.Trace(c.q, n0) })
		}
	}
	// CheckTx: every admitted tx advances the sequence in the check state
	nc := n0
	for i, c := range cells {
		if Modes[c.mode] == "check" && !c.skip {
			res[i] = safely(func() Raw { return p.Check(c.q, nc) })
			if res[i].Admit {
				nc++
			}
		}
	}
	// deliver: real blocks (this also resets the check state)
	var dreq []Req
	var didx []int
	for i, c := range cells {
		if Modes[c.mode] == "deliver" && !c.skip {
			dreq = append(dreq, c.q)
			didx = append(didx, i)
		}
	}
	for j, raw := range p.Deliver(dreq, n0) {
		res[didx[j]] = raw
	}
	out := make([]string, len(cells))
	for i, c := range cells {
		if c.skip {
			out[i] = "skipped"
			continue
		}
		out[i] = hClass(r.T, res[i].HSeen, res[i].HErr, res[i].HOut) + "|" + uClass(r.T, Modes[c.mode], c.q.Via, res[i])
	}
	return out
}

// safely turns a panic of a query entry point into a refused probe (class "unseen|refused").
func safely(f func() Raw) (raw Raw) {
	defer func() {
		if rec := recover(); rec != nil {
			obs.Drain()
			raw = Raw{Detail: "panic: " + trunc(fmt.Sprint(rec), 120)}
		}
	}()
	return f()
}

func (r *RegRun) balOf(n string) int64 { return trace.I(r.C.Bal(r.U.Addr[n], chain.Denom)) }

// ProbeFields returns the probe fields of a trace line.
//
// Full plan:  "probe": addr -> { "d1","d2","x1","e0","e1","r": [6 cells in the order of Modes], "xk": proxy kind of x1 per mode,
//
//	"rin","rvia","rval": input / route / value of the rotating column r per mode },  "bal": addr -> [before, after]
//	  d1 = name() direct             d2 = bech32 prefix view direct        x1 = name() through a proxy
//	  e0 = EMPTY calldata, value 0, direct     e1 = EMPTY calldata, value 1, direct
//	  r  = rotating: 1-3 byte calldata direct | empty calldata via proxy | empty calldata + value 1 via proxy | short calldata via proxy
//	  eth_estimateGas (a binary search of ~18 executions) runs for d1 and e0 only; e1 and r run in deliver, simulate and
//	  eth_call only; the other cells say "skipped".
//
// Otherwise:  "probe": addr -> cell (eth_call, name(), every candidate)  and
//
//	"reg0": registered addr -> [6 cells]: EMPTY calldata, value 0, direct, in every mode.
func (r *RegRun) ProbeFields(plan ProbePlan) (trace.M, int) {
	if !plan.Full {
		lite, n := r.ProbeLite()
		targets := r.registered()
		if plan.Sel != nil {
			targets = plan.Sel
		}
		var cells []cell
		for _, a := range targets {
			for mi := range Modes {
				cells = append(cells, cell{a, "e0", mi, Req{r.U.Addr[a], []byte{}, "direct", 0}, false})
				if plan.Sel != nil {
					cells = append(cells, cell{a, "d1", mi, Req{r.U.Addr[a], inputBytes("in1"), "direct", 0}, false})
				}
			}
		}
		reg0, sel1 := trace.M{}, trace.M{}
		for i, sres := range r.runCells(cells) {
			m := reg0
			if cells[i].col == "d1" {
				m = sel1
			}
			arr, _ := m[cells[i].addr].([]string)
			m[cells[i].addr] = append(arr, sres)
		}
		r.step++
		f := trace.M{"probe": lite, "full": false, "reg0": reg0}
		if plan.Sel != nil {
			f["sel"], f["sel1"] = plan.Sel, sel1
		}
		return f, n + len(cells)
	}
	var cells []cell
	extra := map[string]map[string][]interface{}{}
	for ai, n := range r.U.Cands {
		a := r.U.Addr[n]
		extra[n] = map[string][]interface{}{}
		one := int64(1)
		if n == "mod" {
			one = 0 // a module account is a blocked bank recipient: a value transfer to it panics in the bank hook (not C17's business)
		}
		for mi := range Modes {
			est := Modes[mi] == "estimate"
			few := Modes[mi] != "deliver" && Modes[mi] != "simulate" && Modes[mi] != "eth_call" // e1 and r: three modes only
			k := ProxyKinds[(ai+mi+r.step)%len(ProxyKinds)]
			cells = append(cells,
				cell{n, "d1", mi, Req{a, inputBytes("in1"), "direct", 0}, false},
				cell{n, "d2", mi, Req{a, inputBytes("in2"), "direct", 0}, est},
				cell{n, "x1", mi, Req{a, inputBytes("in1"), k, 0}, est},
				cell{n, "e0", mi, Req{a, []byte{}, "direct", 0}, false},
				cell{n, "e1", mi, Req{a, []byte{}, "direct", one}, few})
			extra[n]["xk"] = append(extra[n]["xk"], k)
			// rotating column
			k2 := ProxyKinds[(ai+2*mi+r.step+1)%len(ProxyKinds)]
			sn := fmt.Sprintf("s%d", 1+(ai+mi+r.step)%3)
			var rin, rvia string
			var rval int64
			switch (ai + mi + 2*r.step) % 4 {
			case 0:
				rin, rvia, rval = sn, "direct", 0
			case 1:
				rin, rvia, rval = "e", k2, 0
			case 2:
				rin, rvia, rval = "e", k2, one
			default:
				rin, rvia, rval = sn, k2, 0
			}
			cells = append(cells, cell{n, "r", mi, Req{a, inputBytes(rin), rvia, rval}, few})
			extra[n]["rin"] = append(extra[n]["rin"], rin)
			extra[n]["rvia"] = append(extra[n]["rvia"], rvia)
			extra[n]["rval"] = append(extra[n]["rval"], rval)
		}
	}
	before := map[string]int64{}
	for _, n := range r.U.Cands {
		before[n] = r.balOf(n)
	}
	strs := r.runCells(cells)
	out := trace.M{}
	for i, c := range cells {
		m, ok := out[c.addr].(trace.M)
		if !ok {
			m = trace.M{}
			out[c.addr] = m
		}
		arr, _ := m[c.col].([]string)
		m[c.col] = append(arr, strs[i])
	}
	bal := trace.M{}
	for _, n := range r.U.Cands {
		for k, v := range extra[n] {
			out[n].(trace.M)[k] = v
		}
		bal[n] = []int64{before[n], r.balOf(n)}
	}
	r.step++
	ran := 0
	for _, c := range cells {
		if !c.skip {
			ran++
		}
	}
	return trace.M{"probe": out, "full": true, "bal": bal}, ran
}

func withFields(line trace.M, f trace.M) trace.M {
	for k, v := range f {
		line[k] = v
	}
	return line
}

func pairOf(cls string) []string {
	if i := strings.Index(cls, ":"); i >= 0 {
		return []string{cls[:i], cls[i+1:]}
	}
	return []string{cls, ""}
}

// StdTable is the reference behaviour of the standard precompiles for the probe inputs.
func (r *RegRun) StdTable() trace.M {
	out := trace.M{}
	for _, n := range r.U.Cands {
		a := r.U.Addr[n]
		if _, ok := corevm.PrecompiledContractsBerlin[a]; ok {
			m := trace.M{}
			for _, in := range []string{"in1", "in2", "e", "s1", "s2", "s3"} {
				m[in] = pairOf(StdRef(r.T, a, inputBytes(in)))
			}
			out[n] = m
		}
	}
	return out
}

// ---------------------------------------------------------------------------------------------
// operations
// ---------------------------------------------------------------------------------------------

// Op is one registry operation of a scenario.
type Op struct {
	K        string // DeployErc20 | DeployStaking | UpdateParams | SetDisabled | Retype | RawVersion
	Sender   string // w | n | w2   (deploys, UpdateParams by tx)
	Route    string // UpdateParams: gov | self | forged
	Denom    string
	Name     string
	Symbol   string
	Decimals uint32
	WL       []string // UpdateParams: new whitelist (names)
	Ver      uint32
	Items    []Op   // DeployErc20Batch: the deployments of one block
	Addr     string // SetDisabled / Retype target (name)
	Flag     bool   // SetDisabled value / Retype: as new deployment
}

func (o Op) String() string {
	switch o.K {
	case "DeployErc20":
		return fmt.Sprintf("DeployErc20(%s,%s,%q,%q,%d)", o.Sender, o.Denom, o.Name, o.Symbol, o.Decimals)
	case "DeployErc20Batch":
		return fmt.Sprintf("DeployErc20Batch(%s,%d deployments,%s..)", o.Sender, len(o.Items), o.Items[0].Denom)
	case "DeployStaking":
		return fmt.Sprintf("DeployStaking(%s,%q,%d)", o.Sender, o.Symbol, o.Decimals)
	case "UpdateParams":
		return fmt.Sprintf("UpdateParams(%s/%s,wl=%v,ver=%d)", o.Route, o.Sender, o.WL, o.Ver)
	case "Drain":
		return fmt.Sprintf("Drain(%s,%s,%s)", o.Addr, o.Denom, o.Route)
	case "MintBack":
		return fmt.Sprintf("MintBack(%s)", o.Denom)
	case "SetDisabled":
		return fmt.Sprintf("SetDisabled(%s,%v)", o.Addr, o.Flag)
	case "Retype":
		return fmt.Sprintf("Retype(%s,new=%v)", o.Addr, o.Flag)
	}
	return fmt.Sprintf("%s(%d)", o.K, o.Ver)
}

// Apply executes op against the real application and returns the "op" and "res" objects of the trace line.
func (r *RegRun) Apply(o Op) (trace.M, trace.M) {
	c := r.C
	opj := trace.M{"k": o.K}
	res := trace.M{"ok": false, "addr": "none", "why": ""}
	switch o.K {
	case "DeployErc20":
		who := r.Who[o.Sender]
		msg := &cpctypes.MsgDeployErc20ContractRequest{Authority: who.Acc().String(), Name: o.Name, Symbol: o.Symbol, Decimals: o.Decimals, MinDenom: o.Denom}
		out := DeliverCosmos(c, who, []sdk.Msg{msg}, chain.CosmosTxOpts{})
		opj["sender"], opj["denom"], opj["name"], opj["symbol"], opj["decimals"] = o.Sender, r.denomName(o.Denom), r.T.T(o.Name), r.T.T(o.Symbol), decTok(o.Decimals)
		r.fillDeployRes(res, out, func(bz []byte) (string, error) {
			var rsp cpctypes.MsgDeployErc20ContractResponse
			err := rsp.Unmarshal(bz)
			return rsp.ContractAddress, err
		})
	case "DeployErc20Batch": // several real deploy transactions of one sender in ONE block
		who := r.Who[o.Sender]
		seq0 := c.Seq(who.Addr)
		var txs [][]byte
		items := []trace.M{}
		for i, it := range o.Items {
			msg := &cpctypes.MsgDeployErc20ContractRequest{Authority: who.Acc().String(), Name: it.Name, Symbol: it.Symbol, Decimals: it.Decimals, MinDenom: it.Denom}
			seq := seq0 + uint64(i)
			tx, err := c.CosmosTx(who, []sdk.Msg{msg}, chain.CosmosTxOpts{Gas: 500000, GasPrice: c.BaseFee().Int64() + 5, Seq: &seq})
			if err != nil {
				panic(err)
			}
			txs = append(txs, tx)
			items = append(items, trace.M{"denom": r.denomName(it.Denom), "name": r.T.T(it.Name), "symbol": r.T.T(it.Symbol), "decimals": decTok(it.Decimals)})
		}
		bo := c.Deliver(txs...)
		if bo.Panic != nil || bo.Err != nil {
			panic(fmt.Sprint("batch block failed: ", bo.Panic, bo.Err))
		}
		oks, addrs := []bool{}, []string{}
		all := true
		for _, tr := range bo.Res.TxResults {
			one := trace.M{"ok": false, "addr": "none", "why": ""}
			r.fillDeployRes(one, TxOutcome{Code: tr.Code, Codespace: tr.Codespace, Log: tr.Log, Data: tr.Data}, func(bz []byte) (string, error) {
				var rsp cpctypes.MsgDeployErc20ContractResponse
				err := rsp.Unmarshal(bz)
				return rsp.ContractAddress, err
			})
			oks = append(oks, one["ok"].(bool))
			addrs = append(addrs, one["addr"].(string))
			all = all && one["ok"].(bool)
		}
		opj["sender"], opj["items"] = o.Sender, items
		res["ok"], res["oks"], res["addrs"] = all, oks, addrs
	case "DeployStaking":
		who := r.Who[o.Sender]
		msg := &cpctypes.MsgDeployStakingContractRequest{Authority: who.Acc().String(), Symbol: o.Symbol, Decimals: o.Decimals}
		out := DeliverCosmos(c, who, []sdk.Msg{msg}, chain.CosmosTxOpts{})
		opj["sender"], opj["symbol"], opj["decimals"] = o.Sender, r.T.T(o.Symbol), decTok(o.Decimals)
		r.fillDeployRes(res, out, func(bz []byte) (string, error) {
			var rsp cpctypes.MsgDeployStakingContractResponse
			err := rsp.Unmarshal(bz)
			return rsp.ContractAddress, err
		})
	case "UpdateParams":
		p := cpctypes.Params{ProtocolVersion: o.Ver}
		for _, n := range o.WL {
			p.WhitelistedDeployers = append(p.WhitelistedDeployers, r.Who[n].Acc().String())
		}
		wl := o.WL
		if wl == nil {
			wl = []string{}
		}
		opj["route"], opj["sender"], opj["wl"], opj["ver"] = o.Route, o.Sender, wl, trace.U(uint64(o.Ver))
		switch o.Route {
		case "gov":
			st, why := GovUpdateParams(c, p)
			res["ok"], res["why"] = st == "passed", st+": "+why
		case "self": // authority = the sender itself, a plain signed transaction
			who := r.Who[o.Sender]
			out := DeliverCosmos(c, who, []sdk.Msg{&cpctypes.MsgUpdateParams{Authority: who.Acc().String(), NewParams: p}}, chain.CosmosTxOpts{})
			res["ok"], res["why"] = out.Code == 0, fmt.Sprintf("code %d %s %s", out.Code, out.Codespace, trunc(out.Log, 100))
		case "forged": // authority = gov module account, signed with the sender's key
			who := r.Who[o.Sender]
			gov := sdk.AccAddress(chain.GovModule.Bytes())
			out := DeliverCosmos(c, who, []sdk.Msg{&cpctypes.MsgUpdateParams{Authority: gov.String(), NewParams: p}}, chain.CosmosTxOpts{Payer: who.Acc()})
			res["ok"], res["why"] = out.Code == 0, fmt.Sprintf("code %d %s %s", out.Code, out.Codespace, trunc(out.Log, 100))
		}
	case "Drain": // burn the WHOLE supply of the contract's denomination through the precompile itself
		erc := r.U.Addr[o.Addr]
		amount := c.App.BankKeeper.GetSupply(c.Ctx(), o.Denom).Amount.BigInt()
		price := new(big.Int).Add(c.BaseFee(), big.NewInt(2))
		mk := func(a *chain.Acct, data []byte) []byte {
			return c.EthTx(a, &ethtypes.LegacyTx{Nonce: c.Seq(a.Addr), GasPrice: price, Gas: 300000, To: &erc, Value: big.NewInt(0), Data: data})
		}
		var txs [][]byte
		if o.Route == "burn" {
			data, _ := cpcabi.Erc20CpcInfo.ABI.Pack("burn", amount)
			txs = append(txs, mk(Holder, data))
		} else { // burnFrom by a spender the single holder approved
			sp := c.Accts[iEOA]
			d1, _ := cpcabi.Erc20CpcInfo.ABI.Pack("approve", sp.Addr, amount)
			d2, _ := cpcabi.Erc20CpcInfo.ABI.Pack("burnFrom", Holder.Addr, amount)
			txs = append(txs, mk(Holder, d1), mk(sp, d2))
		}
		bo := c.Deliver(txs...)
		ok := bo.Res != nil
		why := ""
		if ok {
			for _, tr := range bo.Res.TxResults {
				rsp, err := ethResponse(tr.Data)
				if tr.Code != 0 || err != nil || rsp.VmError != "" {
					ok = false
					why += fmt.Sprintf("code %d %s ", tr.Code, trunc(tr.Log, 80))
					if rsp != nil {
						why += rsp.VmError
					}
				}
			}
		}
		opj["addr"], opj["denom"], opj["route"] = o.Addr, r.denomName(o.Denom), o.Route
		res["ok"], res["why"] = ok, why
		res["supplyLeft"] = trace.I(c.App.BankKeeper.GetSupply(c.Ctx(), o.Denom).Amount.BigInt())
	case "MintBack":
		st := MintBack(c, o.Denom, 9)
		opj["denom"] = r.denomName(o.Denom)
		res["ok"], res["why"] = st == "ok", st
	case "SetDisabled":
		st := SetDisabled(c, r.U.Addr[o.Addr], o.Flag)
		opj["addr"], opj["flag"] = o.Addr, o.Flag
		res["ok"], res["why"] = st == "ok", st
	case "Retype":
		st := Retype(c, r.U.Addr[o.Addr], o.Flag)
		opj["addr"], opj["asNew"] = o.Addr, o.Flag
		res["ok"], res["why"] = st == "ok", st
	case "RawVersion":
		RawSetVersion(c, o.Ver)
		opj["ver"] = trace.U(uint64(o.Ver))
		res["ok"] = true
	default:
		panic("unknown op " + o.K)
	}
	return opj, res
}

// decTok keeps a decimals argument inside TLC's integers (values >= 2^20 are folded; only values 1..18 can be accepted).
func decTok(d uint32) int64 {
	if d >= 1<<20 {
		return int64(1<<20 + d%65536)
	}
	return int64(d)
}

func (r *RegRun) fillDeployRes(res trace.M, out TxOutcome, dec func([]byte) (string, error)) {
	res["why"] = fmt.Sprintf("code %d %s %s", out.Code, out.Codespace, trunc(out.Log, 100))
	if out.Code != 0 {
		return
	}
	res["ok"] = true
	var td sdk.TxMsgData
	if err := td.Unmarshal(out.Data); err != nil || len(td.MsgResponses) != 1 {
		res["addr"] = "undecodable"
		return
	}
	a, err := dec(td.MsgResponses[0].Value)
	if err != nil {
		res["addr"] = "undecodable"
		return
	}
	res["addr"] = r.U.name(common.HexToAddress(a))
}

// ---------------------------------------------------------------------------------------------
// scenario generation
// ---------------------------------------------------------------------------------------------

// RegGenOpts of a run.
type RegGenOpts struct {
	Seed     int64
	Depth    int  // exhaustive enumeration depth of the op tree
	Random   int  // number of random linear scenarios
	RandLen  int  // ops per random scenario
	Shard    int  // this process handles genesis configurations i with i % Shards == Shard
	Shards   int
	Many     []int // "many contracts" scenarios: number of ERC-20 precompiles to register in each
	Scripted bool  // also run the scripted scenarios
	Cfgs     []int // genesis configurations of the tree part (nil = all)
	FullEach bool // full probe matrix at every node (otherwise at leaves and accepted ops; reduced elsewhere)
}

// Genesis configurations: flags x whitelist.
type genCfg struct {
	Erc20Native, Staking bool
	WL                   []int
	wlNames              []string
}

func genCfgs() []genCfg {
	var out []genCfg
	for _, e := range []bool{false, true} {
		for _, s := range []bool{false, true} {
			out = append(out, genCfg{e, s, []int{iW}, []string{"w"}})
		}
	}
	out = append(out, genCfg{false, false, nil, []string{}})
	out = append(out, genCfg{true, true, []int{iW, iW2}, []string{"w", "w2"}})
	return out
}

// alphabet of the exhaustive enumeration (names/symbols fixed and valid; the random scenarios vary them)
func alphabet(registered []string) []Op {
	var ops []Op
	for _, s := range []string{"w", "n"} {
		for _, d := range []string{chain.Denom2, DenomZero, chain.Denom} {
			ops = append(ops, Op{K: "DeployErc20", Sender: s, Denom: d, Name: "tok" + d, Symbol: "T" + strings.ToUpper(d), Decimals: 6})
		}
		ops = append(ops, Op{K: "DeployStaking", Sender: s, Symbol: "STK", Decimals: 18})
	}
	ops = append(ops,
		Op{K: "UpdateParams", Route: "gov", Sender: "val", WL: []string{"w", "n"}, Ver: 1},
		Op{K: "UpdateParams", Route: "gov", Sender: "val", WL: nil, Ver: 1},
		Op{K: "UpdateParams", Route: "gov", Sender: "val", WL: []string{"w"}, Ver: 0},
		Op{K: "UpdateParams", Route: "self", Sender: "n", WL: []string{"n"}, Ver: 1},
		Op{K: "UpdateParams", Route: "forged", Sender: "n", WL: []string{"n"}, Ver: 1},
	)
	for _, a := range registered {
		ops = append(ops, Op{K: "SetDisabled", Addr: a, Flag: true})
	}
	return ops
}

func (r *RegRun) registered() []string {
	d := DumpReg(r.C)
	var out []string
	for _, m := range d.Metas {
		out = append(out, r.U.name(m.KeyAddr))
	}
	sort.Strings(out)
	return out
}

// RegStats counts what a run did.
type RegStats struct {
	Nodes, Traces, Probes, Accepted, Rejected int
	Classes                                   map[string]int
}

func newRegRun(g genCfg, toks *Toks, nDyn int) *RegRun {
	c := NewRegChain(RegOpts{Erc20Native: g.Erc20Native, Staking: g.Staking, Whitelist: g.WL})
	r := &RegRun{C: c, T: toks, Denoms: []string{chain.Denom, chain.Denom2, DenomZero, DenomThree, DenomFour}}
	r.U = NewUniverse(c, nDyn)
	r.Who = map[string]*chain.Acct{"w": c.Accts[iW], "n": c.Accts[iN], "w2": c.Accts[iW2], "val": c.Accts[iVal]}
	return r
}

func (r *RegRun) clone() *RegRun {
	return &RegRun{C: r.C.Clone(), U: r.U, T: r.T, Who: r.Who, Denoms: r.Denoms, step: r.step}
}

func (r *RegRun) genesisLine(tid string, g genCfg, plan ProbePlan) trace.M {
	accts := trace.M{}
	for n, a := range r.Who {
		accts[n] = strings.ToLower(a.Addr.Hex())
	}
	reg := r.Project()
	pf, _ := r.ProbeFields(plan)
	dyn := []string{}
	for k := 0; k < r.U.NDyn; k++ {
		dyn = append(dyn, fmt.Sprintf("dyn%d", k))
	}
	return withFields(trace.M{"ev": "Genesis", "tid": tid, "d": 0, "flags": trace.M{"erc20": g.Erc20Native, "staking": g.Staking}, "wl": g.wlNames,
		"cands": r.U.Cands, "dyn": dyn, "std": r.StdTable(), "modes": Modes, "bondDenom": chain.Denom, "hrp": r.T.T(sdk.GetConfig().GetBech32AccountAddrPrefix()),
		"reg": reg}, pf)
}

// GenRegistry writes the registry traces: for each genesis configuration the exhaustive op tree up to Depth in DFS
// order (field d = depth of the state the op is applied to), then Random linear scenarios.
func GenRegistry(w *trace.W, o RegGenOpts) RegStats {
	obs.Install()
	st := RegStats{Classes: map[string]int{}}
	toks := NewToks()
	cfgs := genCfgs()
	shards := o.Shards
	if shards < 1 {
		shards = 1
	}
	item := 0
	for gi, g := range cfgs {
		if o.Depth <= 0 || !hasCfg(o.Cfgs, gi) {
			continue
		}
		root := newRegRun(g, toks, 4)
		first := alphabet(root.registered())
		mine, owner := false, false
		for oi := range first {
			if (item+oi)%shards == o.Shard {
				mine = true
				owner = owner || oi == 0
			}
		}
		if !mine {
			item += len(first)
			continue
		}
		tid := fmt.Sprintf("tree-g%d-s%d", gi, o.Shard)
		w.Emit(root.genesisLine(tid, g, ProbePlan{Full: owner})) // the full genesis probe once per configuration
		st.Traces++
		st.Nodes++
		seen := map[string]bool{}
		var dfs func(r *RegRun, depth int, only func(int) bool)
		dfs = func(r *RegRun, depth int, only func(int) bool) {
			if depth >= o.Depth {
				return
			}
			for oi, op := range alphabet(r.registered()) {
				if only != nil && !only(oi) {
					continue
				}
				child := r.clone()
				opj, res := child.Apply(op)
				plan := ProbePlan{Full: o.FullEach || (res["ok"].(bool) && firstVisit(seen, child))}
				pf, n := child.ProbeFields(plan)
				st.Probes += n
				st.Nodes++
				if res["ok"].(bool) {
					st.Accepted++
				} else {
					st.Rejected++
				}
				st.Classes[op.K+"/"+fmt.Sprint(res["ok"])]++
				w.Emit(withFields(trace.M{"ev": "Op", "d": depth, "op": opj, "res": res, "reg": child.Project(), "txt": op.String()}, pf))
				dfs(child, depth+1, nil)
			}
		}
		base := item
		dfs(root, 0, func(oi int) bool { return (base+oi)%shards == o.Shard })
		item += len(first)
	}
	// scripted linear scenarios (shard 0): situations the alphabet of the tree does not contain
	if o.Shard == 0 && o.Scripted {
		for si, sc := range scripted() {
			r := newRegRun(sc.g, toks, 6)
			tid := fmt.Sprintf("script-%d", si)
			w.Emit(r.genesisLine(tid, sc.g, ProbePlan{Full: true}))
			st.Traces++
			st.Nodes++
			for k, op := range sc.ops {
				opj, res := r.Apply(op)
				line := trace.M{"ev": "Op", "d": k, "op": opj, "res": res, "reg": r.Project(), "txt": op.String()}
				if r.versionAbove1() {
					line["probe"], line["full"], line["noprobe"] = trace.M{}, false, true
				} else {
					pf, n := r.ProbeFields(ProbePlan{Full: true})
					st.Probes += n
					line = withFields(line, pf)
					line["reg"] = r.Project()
				}
				w.Emit(line)
				st.Nodes++
				if res["ok"].(bool) {
					st.Accepted++
				} else {
					st.Rejected++
				}
				st.Classes[op.K+"/"+fmt.Sprint(res["ok"])]++
			}
		}
	}
	// "many contracts" scenarios: more registered contracts than any page size
	for mi, count := range o.Many {
		if (1+mi)%shards != o.Shard {
			continue
		}
		manyScenario(w, &st, toks, mi, count)
	}
	// random linear scenarios
	rng := rand.New(rand.NewSource(o.Seed))
	for i := 0; i < o.Random; i++ {
		seed := rng.Int63()
		if o.Shards > 1 && i%o.Shards != o.Shard {
			continue
		}
		rr := rand.New(rand.NewSource(seed))
		g := cfgs[rr.Intn(len(cfgs))]
		r := newRegRun(g, toks, 6)
		tid := fmt.Sprintf("rand-%d-%d", o.Seed, i)
		w.Emit(r.genesisLine(tid, g, ProbePlan{Full: true}))
		st.Traces++
		st.Nodes++
		for k := 0; k < o.RandLen; k++ {
			op := r.randomOp(rr)
			opj, res := r.Apply(op)
			plan := ProbePlan{Full: res["ok"].(bool) || k == o.RandLen-1 || rr.Intn(3) == 0}
			if op.K == "RawVersion" || r.versionAbove1() {
				// a protocol version the pinned binary does not know: the EVM wiring panics by design; no probes
				w.Emit(trace.M{"ev": "Op", "d": k, "op": opj, "res": res, "reg": r.Project(), "probe": trace.M{}, "full": false, "noprobe": true, "txt": op.String()})
			} else {
				pf, n := r.ProbeFields(plan)
				st.Probes += n
				w.Emit(withFields(trace.M{"ev": "Op", "d": k, "op": opj, "res": res, "reg": r.Project(), "txt": op.String()}, pf))
			}
			st.Nodes++
			if res["ok"].(bool) {
				st.Accepted++
			} else {
				st.Rejected++
			}
			st.Classes[op.K+"/"+fmt.Sprint(res["ok"])]++
		}
	}
	return st
}

func hasCfg(cfgs []int, gi int) bool {
	if len(cfgs) == 0 {
		return true
	}
	for _, c := range cfgs {
		if c == gi {
			return true
		}
	}
	return false
}

// firstVisit reports whether the registry content of r (records, index, params, nonce) is seen for the first time in this
// tree: the full probe matrix is run once per distinct registry content, the lite probe everywhere else.
func firstVisit(seen map[string]bool, r *RegRun) bool {
	d := DumpReg(r.C)
	bz, _ := json.Marshal([]interface{}{d.Metas, d.Index, d.Params, d.Nonce})
	k := string(bz)
	if seen[k] {
		return false
	}
	seen[k] = true
	return true
}

// manyScenario registers `count` ERC-20 precompiles (one per bank denomination) through real messages of the whitelisted
// deployer, up to 9 per block, and probes after the 99th, 100th, 101st and last deployment: the lite probe (eth_call name())
// of every candidate and every registered contract, plus name() and empty calldata in all six modes at the first, 100th,
// 101st and last registered contract in deployment order and in address order, the next dynamic address and a fresh address.
func manyScenario(w *trace.W, st *RegStats, toks *Toks, idx, count int) {
	g := genCfg{false, false, nil, []string{"w"}}
	c := NewRegChain(RegOpts{ManyDenoms: count})
	r := &RegRun{C: c, T: toks, Denoms: []string{chain.Denom, chain.Denom2, DenomZero, DenomThree}}
	for i := 0; i < count; i++ {
		r.Denoms = append(r.Denoms, ManyDenom(i))
	}
	r.U = NewUniverse(c, 4)
	r.Who = map[string]*chain.Acct{"w": ManyDeployer, "n": c.Accts[iN], "w2": c.Accts[iW2], "val": c.Accts[iVal]}
	w.Emit(r.genesisLine(fmt.Sprintf("many-%d-%d", idx, count), g, ProbePlan{Full: true}))
	st.Traces++
	st.Nodes++
	stops := map[int]bool{99: true, 100: true, 101: true, count: true}
	done, line := 0, 0
	for done < count {
		var items []Op
		for len(items) < 9 && done+len(items) < count {
			d := ManyDenom(done + len(items))
			items = append(items, Op{K: "DeployErc20", Sender: "w", Denom: d, Name: "tok" + d, Symbol: "T" + strings.ToUpper(d), Decimals: uint32(1 + (done+len(items))%18)})
			if stops[done+len(items)] {
				break
			}
		}
		op := Op{K: "DeployErc20Batch", Sender: "w", Items: items}
		opj, res := r.Apply(op)
		done += len(items)
		ln := trace.M{"ev": "Op", "d": line, "op": opj, "res": res, "txt": fmt.Sprintf("%s -> %d registered", op.String(), done)}
		if stops[done] {
			pf, n := r.ProbeFields(ProbePlan{Sel: r.manySel(done)})
			st.Probes += n
			ln = withFields(ln, pf)
		} else {
			ln["probe"], ln["full"], ln["noprobe"] = trace.M{}, false, true
		}
		ln["reg"] = r.Project()
		w.Emit(ln)
		line++
		st.Nodes++
		if res["ok"].(bool) {
			st.Accepted++
		} else {
			st.Rejected++
		}
		st.Classes[op.K+"/"+fmt.Sprint(res["ok"])]++
	}
}

// manySel selects the contracts probed in every mode: first, 100th, 101st and last registered, by deployment order and by
// address order (the order of the store), the next dynamic address and a never-used address.
func (r *RegRun) manySel(done int) []string {
	pick := map[string]bool{}
	for _, k := range []int{0, 98, 99, 100, done - 1} {
		if k >= 0 && k < done {
			pick[fmt.Sprintf("dyn%d", k)] = true
		}
	}
	d := DumpReg(r.C) // Metas are in store (address) order
	for _, k := range []int{0, 98, 99, 100, 101, len(d.Metas) - 1} {
		if k >= 0 && k < len(d.Metas) {
			pick[r.U.name(d.Metas[k].KeyAddr)] = true
		}
	}
	pick[fmt.Sprintf("dyn%d", done)] = true
	pick["fresh"] = true
	var out []string
	for n := range pick {
		if _, ok := r.U.Addr[n]; ok {
			out = append(out, n)
		}
	}
	sort.Strings(out)
	return out
}

type script struct {
	g   genCfg
	ops []Op
}

func scripted() []script {
	cfgs := genCfgs()
	erc := func(sender, denom string) Op {
		return Op{K: "DeployErc20", Sender: sender, Denom: denom, Name: "tok" + denom, Symbol: "T" + strings.ToUpper(denom), Decimals: 9}
	}
	gov := func(wl []string, ver uint32) Op { return Op{K: "UpdateParams", Route: "gov", Sender: "val", WL: wl, Ver: ver} }
	return []script{
		// a later protocol version exists (fabricated in the store): going back must be refused, unknown versions too
		{cfgs[0], []Op{{K: "RawVersion", Ver: 2}, gov([]string{"w"}, 1), gov([]string{"w"}, 2), gov([]string{"w"}, 0), gov([]string{"w"}, 3), erc("w", chain.Denom2)}},
		// disable / enable / type change / redeploy over an existing address / duplicates
		{cfgs[0], []Op{erc("w", chain.Denom2), {K: "SetDisabled", Addr: "dyn0", Flag: true}, {K: "SetDisabled", Addr: "dyn0", Flag: false},
			{K: "Retype", Addr: "dyn0", Flag: false}, {K: "Retype", Addr: "dyn0", Flag: true}, {K: "Retype", Addr: "b32", Flag: false},
			erc("w", chain.Denom2), erc("w", DenomThree), {K: "SetDisabled", Addr: "dyn1", Flag: true}, {K: "SetDisabled", Addr: "eoa", Flag: true}}},
		// the total supply of a deployed ERC-20 denomination drained to exactly zero through the precompile (burn by the only
		// holder; burnFrom by an approved spender), minted back, drained while disabled: the registry - not bank - decides the wiring
		{cfgs[0], []Op{erc("w", DenomThree), {K: "Drain", Addr: "dyn0", Denom: DenomThree, Route: "burn"}, erc("w", DenomThree),
			{K: "MintBack", Denom: DenomThree}, erc("w", DenomFour), {K: "Drain", Addr: "dyn1", Denom: DenomFour, Route: "burnFrom"},
			{K: "SetDisabled", Addr: "dyn1", Flag: true}, {K: "SetDisabled", Addr: "dyn1", Flag: false}, {K: "Drain", Addr: "dyn0", Denom: DenomThree, Route: "burnFrom"}}},
		{cfgs[3], []Op{{K: "SetDisabled", Addr: "stk", Flag: true}, {K: "DeployStaking", Sender: "w", Symbol: "STK", Decimals: 18}, {K: "SetDisabled", Addr: "dyn0", Flag: true},
			{K: "SetDisabled", Addr: "stk", Flag: false}, {K: "Retype", Addr: "stk", Flag: false}, {K: "Retype", Addr: "stk", Flag: true}, erc("w", chain.Denom),
			gov(nil, 1), erc("w", chain.Denom2), gov([]string{"n"}, 1), erc("n", chain.Denom2), erc("w", DenomThree)}},
	}
}

func (r *RegRun) versionAbove1() bool { return DumpReg(r.C).Params.ProtocolVersion > 1 }

var edgeNames = []string{"tokA", "a/b:c.d_e-f", "abc", "ab", "x" + strings.Repeat("y", 127), "x" + strings.Repeat("y", 128), "Two Coin", " lead", "trail ", "", "9abc", "名前token", "tok\"q", "wei", "utwo"}
var edgeSymbols = []string{"TKA", "S", "sym bol", " s", "", "wei", "utwo", "uzero", strings.Repeat("Z", 200), "Ω", "T\\n"}
var edgeDecimals = []uint32{0, 1, 6, 18, 19, 255, 256, 257, 274, 65536 + 6, 4294967295}

func (r *RegRun) randomOp(rr *rand.Rand) Op {
	pick := func(xs []string) string { return xs[rr.Intn(len(xs))] }
	senders := []string{"w", "w", "w", "n", "w2"}
	switch x := rr.Intn(100); {
	case x < 40:
		d := pick([]string{chain.Denom, chain.Denom2, chain.Denom2, DenomZero, DenomThree, DenomThree, DenomThree, chain.Denom2, "unknown" + fmt.Sprint(rr.Intn(3)), "", " utwo"})
		o := Op{K: "DeployErc20", Sender: pick(senders), Denom: d, Name: "tok" + strings.TrimSpace(d), Symbol: "T" + strings.ToUpper(strings.TrimSpace(d)), Decimals: 6}
		if rr.Intn(5) == 0 {
			o.Name = pick(edgeNames)
		}
		if rr.Intn(5) == 0 {
			o.Symbol = pick(edgeSymbols)
		}
		if rr.Intn(4) == 0 {
			o.Decimals = edgeDecimals[rr.Intn(len(edgeDecimals))]
		}
		return o
	case x < 55:
		o := Op{K: "DeployStaking", Sender: pick(senders), Symbol: "STK", Decimals: 18}
		if rr.Intn(3) == 0 {
			o.Symbol = pick(edgeSymbols)
		}
		if rr.Intn(3) == 0 {
			o.Decimals = edgeDecimals[rr.Intn(len(edgeDecimals))]
		}
		return o
	case x < 75:
		wls := [][]string{nil, {"w"}, {"n"}, {"w", "n"}, {"w2"}, {"w", "w2", "n"}, {"w", "w"}}
		o := Op{K: "UpdateParams", Route: pick([]string{"gov", "gov", "gov", "self", "forged"}), Sender: pick(senders), WL: wls[rr.Intn(len(wls))], Ver: []uint32{1, 1, 1, 0, 2}[rr.Intn(5)]}
		return o
	case x < 90:
		reg := r.registered()
		cands := append(reg, "dyn0", "eoa")
		return Op{K: "SetDisabled", Addr: pick(cands), Flag: rr.Intn(4) != 0}
	case x < 97:
		reg := r.registered()
		return Op{K: "Retype", Addr: pick(reg), Flag: rr.Intn(2) == 0}
	default:
		return Op{K: "RawVersion", Ver: 2}
	}
}
