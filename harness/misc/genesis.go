package misc

import (
	"encoding/hex"
	"encoding/json"
	"fmt"
	"math/big"
	"math/rand"
	"sort"
	"strings"
	"time"

	sdkmath "cosmossdk.io/math"
	storetypes "cosmossdk.io/store/types"
	abci "github.com/cometbft/cometbft/abci/types"
	cmtproto "github.com/cometbft/cometbft/proto/tendermint/types"
	sdkdb "github.com/cosmos/cosmos-db"
	sdk "github.com/cosmos/cosmos-sdk/types"
	authtypes "github.com/cosmos/cosmos-sdk/x/auth/types"
	banktypes "github.com/cosmos/cosmos-sdk/x/bank/types"
	govtypes "github.com/cosmos/cosmos-sdk/x/gov/types"
	govv1 "github.com/cosmos/cosmos-sdk/x/gov/types/v1"
	"github.com/ethereum/go-ethereum/common"
	ethtypes "github.com/ethereum/go-ethereum/core/types"
	"github.com/ethereum/go-ethereum/crypto"

	chainapp "github.com/EscanBE/evermint/v12/app"
	"github.com/EscanBE/evermint/v12/app/params"
	cpc "github.com/EscanBE/evermint/v12/x/cpc"
	cpcabi "github.com/EscanBE/evermint/v12/x/cpc/abi"
	cpctypes "github.com/EscanBE/evermint/v12/x/cpc/types"
	evm "github.com/EscanBE/evermint/v12/x/evm"
	evmtypes "github.com/EscanBE/evermint/v12/x/evm/types"
	feemarket "github.com/EscanBE/evermint/v12/x/feemarket"
	feemarkettypes "github.com/EscanBE/evermint/v12/x/feemarket/types"
	vauth "github.com/EscanBE/evermint/v12/x/vauth"
	vauthtypes "github.com/EscanBE/evermint/v12/x/vauth/types"

	"verifharness/chain"
	"verifharness/prog"
	"verifharness/trace"
)

// GenWorld is one history of the genesis round-trip driver.
type GenWorld struct {
	C     *chain.Chain
	T     *Toks
	R     *rand.Rand
	U     *prog.Universe
	Tbl   *prog.Table
	Names map[common.Address]string
	Who   map[string]*chain.Acct
	Rich  *chain.Acct
	// bookkeeping of the generator
	Contracts []common.Address
	Erc20s    []common.Address
	NK        int
	Hist      map[string]int
}

var maxU256 = new(big.Int).Sub(new(big.Int).Lsh(big.NewInt(1), 256), big.NewInt(1))

func (g *GenWorld) name(a common.Address) string {
	if n, ok := g.Names[a]; ok {
		return n
	}
	return "x:" + strings.ToLower(a.Hex())
}

func (g *GenWorld) addName(n string, a common.Address) { g.Names[a] = n }

// valTok renders a 256-bit storage value / allowance as an integer TLC can hold: small values as they are,
// 2^256-1 as -1, any other big value as -(2+k) where k is its index in the token table (values are only compared).
func valTok(t *Toks, b []byte) int64 {
	v := new(big.Int).SetBytes(b)
	if v.Cmp(maxU256) == 0 {
		return -1
	}
	if v.IsInt64() && v.Int64() < 1_000_000 {
		return v.Int64()
	}
	tok := t.T("0x" + hex.EncodeToString(b))
	var k int64
	fmt.Sscanf(tok, "s%d", &k)
	return -(2 + k)
}

func slotTok(t *Toks, b []byte) string {
	v := new(big.Int).SetBytes(b)
	if v.IsInt64() && v.Int64() < 1000 {
		return fmt.Sprintf("s%d", v.Int64())
	}
	return t.T("slot:" + hex.EncodeToString(b))
}

// genesis contracts of the round-trip histories
var (
	genG0 = common.HexToAddress("0x00000000000000000000000000000000c0de0001") // code + storage incl. a zero-valued entry
	genG1 = common.HexToAddress("0x00000000000000000000000000000000c0de0002") // storage, no code
)

func h(n uint64) common.Hash { return common.BigToHash(new(big.Int).SetUint64(n)) }

// NewGenWorld builds the chain of one history.
func NewGenWorld(seed int64, toks *Toks) *GenWorld {
	r := rand.New(rand.NewSource(seed))
	g := &GenWorld{T: toks, R: r, U: prog.NewUniverse(), Tbl: prog.NewTable(), Names: map[common.Address]string{}, Hist: map[string]int{}}
	co := chain.DefaultOpts()
	co.NAccts = 6
	co.BaseFee = int64(8 + r.Intn(90))
	if r.Intn(2) == 0 {
		co.MaxGas = int64(300000 + 100000*r.Intn(4))
	}
	if r.Intn(4) != 0 {
		co.MinGasPrice = pickMinGasPrice(r, co.BaseFee)
	}
	co.CpcDeployErc20Native = r.Intn(2) == 0
	co.CpcDeployStaking = r.Intn(2) == 0
	co.CpcWhitelist = []string{chain.NewAcct("a1").Acc().String()}
	for i := 0; i < co.NAccts; i++ {
		a := chain.NewAcct(fmt.Sprintf("a%d", i))
		g.U.Add(fmt.Sprintf("a%d", i), a.Addr)
		g.addName(fmt.Sprintf("a%d", i), a.Addr)
	}
	g.Tbl.Define("rt", map[string][]prog.Op{
		"e0": {},
		"e1": {{Op: "SSTORE", Slot: "s1", Val: 5}, {Op: "SSTORE", Slot: "s2", Val: 7}},
		"e2": {{Op: "SSTORE", Slot: "s1", Val: 0}, {Op: "SSTORE", Slot: "s2", Val: 0}},
		"e3": {{Op: "SELFDESTRUCT", To: "a0"}},
		"e4": {{Op: "SSTORE", Slot: "s3", Val: 9}, {Op: "SSTORE", Slot: "s3", Val: 0}},
		"e5": {{Op: "SSTORE", Slot: "s0", Val: 0}},
		"e6": {{Op: "SSTORE", Slot: "s4", Val: 1}},
	}, g.U)
	g.Tbl.DefineInit("i0", []prog.Op{{Op: "SSTORE", Slot: "s0", Val: 1}, {Op: "SSTORE", Slot: "s1", Val: 2}}, g.U)
	g.Tbl.DefineInit("i1", []prog.Op{{Op: "SSTORE", Slot: "s0", Val: 1}, {Op: "SSTORE", Slot: "s0", Val: 0}, {Op: "SSTORE", Slot: "s5", Val: 3}}, g.U)
	g.Tbl.DefineInit("i2", []prog.Op{}, g.U)

	co.Contracts = []chain.GenContract{
		{Addr: genG0, Code: g.Tbl.Code["rt"], Storage: map[common.Hash]common.Hash{h(1): h(11), h(2): h(0), h(7): common.HexToHash("0xffffffffffffffffffffffffffffffffffffffffffffffffffffffffffffffff")}},
	}
	if r.Intn(2) == 0 {
		co.Contracts = append(co.Contracts, chain.GenContract{Addr: genG1, Code: nil, Storage: map[common.Hash]common.Hash{h(3): h(33)}})
	}
	g.addName("g0", genG0)
	g.addName("g1", genG1)
	g.Rich = chain.NewAcct("rich")
	g.addName("rich", g.Rich.Addr)
	holder := chain.NewAcct("holder3")
	rich, _ := sdkmath.NewIntFromString("5000000000000000000") // 5e18: pays up to four ownership proofs; never logged
	co.ExtraAccts = []authtypes.GenesisAccount{authtypes.NewBaseAccount(holder.Acc(), nil, 0, 0), authtypes.NewBaseAccount(g.Rich.Acc(), nil, 0, 0)}
	co.ExtraBals = []banktypes.Balance{{Address: holder.Acc().String(), Coins: sdk.NewCoins(sdk.NewInt64Coin(DenomThree, 77))},
		{Address: g.Rich.Acc().String(), Coins: sdk.NewCoins(sdk.NewCoin(chain.Denom, rich))}}
	co.Patch = GovPatch
	g.C = chain.New(co)
	g.Who = map[string]*chain.Acct{}
	for i, a := range g.C.Accts {
		g.Who[fmt.Sprintf("a%d", i)] = a
	}
	g.addName("stk", cpctypes.CpcStakingFixedAddress)
	g.addName("b32", cpctypes.CpcBech32FixedAddress)
	for k := 0; k < 8; k++ {
		g.addName(fmt.Sprintf("dyn%d", k), DynAddr(uint64(k)))
	}
	g.Contracts = []common.Address{genG0}
	return g
}

func (g *GenWorld) price() *big.Int { return new(big.Int).Add(g.C.BaseFee(), big.NewInt(2)) }

// ethTx builds a legacy tx of acct.
func (g *GenWorld) ethTx(a *chain.Acct, nonce uint64, to *common.Address, data []byte, gas uint64) []byte {
	return g.C.EthTx(a, &ethtypes.LegacyTx{Nonce: nonce, GasPrice: g.price(), Gas: gas, To: to, Value: big.NewInt(0), Data: data})
}

// Step performs one random block of the history.
func (g *GenWorld) Step() {
	r := g.R
	c := g.C
	sender := g.Rich // ample funds, never logged
	nonce := c.Seq(sender.Addr)
	var txs [][]byte
	add := func(to *common.Address, data []byte, gas uint64) {
		txs = append(txs, g.ethTx(sender, nonce, to, data, gas))
		nonce++
	}
	switch x := r.Intn(100); {
	case x < 25: // deploy a contract: constructor storage x runtime (incl. empty runtime: candidate D16)
		init := []string{"i0", "i1", "i2"}[r.Intn(3)]
		rt := []string{"rt", "rt", "none"}[r.Intn(3)]
		addr := crypto.CreateAddress(sender.Addr, nonce)
		g.NK++
		g.addName(fmt.Sprintf("k%d", g.NK), addr)
		add(nil, g.Tbl.InitCode(init, rt), 400000)
		if rt != "none" {
			g.Contracts = append(g.Contracts, addr)
		}
		g.Hist["deploy."+init+"."+rt]++
	case x < 50: // call entries of existing contracts (set / zero / delete / selfdestruct)
		n := 1 + r.Intn(3)
		for i := 0; i < n && len(g.Contracts) > 0; i++ {
			to := g.Contracts[r.Intn(len(g.Contracts))]
			e := []string{"e1", "e2", "e4", "e5", "e6", "e1", "e3"}[r.Intn(7)]
			add(&to, prog.SelData(e), 200000)
			g.Hist["call."+e]++
		}
	case x < 62: // message-deployed ERC-20 precompile
		d := []string{chain.Denom2, DenomThree, chain.Denom}[r.Intn(3)]
		w := g.Who["a1"]
		out := DeliverCosmos(c, w, []sdk.Msg{&cpctypes.MsgDeployErc20ContractRequest{Authority: w.Acc().String(), Name: "tok" + d, Symbol: "T" + strings.ToUpper(d), Decimals: uint32(1 + r.Intn(18)), MinDenom: d}}, chain.CosmosTxOpts{})
		g.Hist[fmt.Sprintf("msg.deployErc20.%v", out.Code == 0)]++
		return
	case x < 67: // message-deployed staking precompile with its own symbol
		w := g.Who["a1"]
		out := DeliverCosmos(c, w, []sdk.Msg{&cpctypes.MsgDeployStakingContractRequest{Authority: w.Acc().String(), Symbol: "MYSTK", Decimals: 6}}, chain.CosmosTxOpts{})
		g.Hist[fmt.Sprintf("msg.deployStaking.%v", out.Code == 0)]++
		return
	case x < 80: // approvals through an ERC-20 precompile
		d := DumpReg(c)
		var erc []common.Address
		for _, m := range d.Metas {
			if m.Meta.CustomPrecompiledType == cpctypes.CpcTypeErc20 {
				erc = append(erc, m.KeyAddr)
			}
		}
		if len(erc) == 0 {
			g.Hist["approve.no-erc20"]++
			c.Deliver()
			return
		}
		owner := g.Who[fmt.Sprintf("a%d", 2+r.Intn(3))]
		spender := g.Who[fmt.Sprintf("a%d", r.Intn(6))]
		amt := []*big.Int{big.NewInt(5), big.NewInt(0), big.NewInt(1000), maxU256}[r.Intn(4)]
		data, err := cpcabi.Erc20CpcInfo.ABI.Pack("approve", spender.Addr, amt)
		if err != nil {
			panic(err)
		}
		to := erc[r.Intn(len(erc))]
		tx := g.C.EthTx(owner, &ethtypes.LegacyTx{Nonce: c.Seq(owner.Addr), GasPrice: g.price(), Gas: 200000, To: &to, Value: big.NewInt(0), Data: data})
		bo := c.Deliver(tx)
		ok := bo.Res != nil && bo.Res.TxResults[0].Code == 0
		g.Hist[fmt.Sprintf("approve.%v", ok)]++
		return
	case x < 88: // ownership proof (costs 1e18 of the evm denom, paid by `rich`)
		acct := g.Who[fmt.Sprintf("a%d", 2+r.Intn(4))]
		priv, _ := acct.Priv.ToECDSA()
		sig, err := crypto.Sign(crypto.Keccak256([]byte(vauthtypes.MessageToSign)), priv)
		if err != nil {
			panic(err)
		}
		msg := &vauthtypes.MsgSubmitProofExternalOwnedAccount{Submitter: g.Rich.Acc().String(), Account: acct.Acc().String(), Signature: "0x" + hex.EncodeToString(sig)}
		out := DeliverCosmos(c, g.Rich, []sdk.Msg{msg}, chain.CosmosTxOpts{})
		g.Hist[fmt.Sprintf("proof.%v", out.Code == 0)]++
		return
	case x < 94: // parameter changes through governance
		switch r.Intn(3) {
		case 0:
			p := c.App.FeeMarketKeeper.GetParams(c.Ctx())
			p.MinGasPrice = sdkmath.LegacyMustNewDecFromStr(pickMinGasPrice(r, p.BaseFee.Int64()))
			if r.Intn(3) == 0 {
				p.BaseFee = sdkmath.NewInt(int64(5 + r.Intn(200)))
			}
			st, _ := GovMsg(c, &feemarkettypes.MsgUpdateParams{Authority: govAuthority(), Params: p})
			g.Hist["gov.feemarket."+st]++
		case 1:
			p := c.App.EvmKeeper.GetParams(c.Ctx())
			p.ExtraEIPs = []int64{3855, 2200, 1344}[:1+r.Intn(3)]
			st, _ := GovMsg(c, &evmtypes.MsgUpdateParams{Authority: govAuthority(), Params: p})
			g.Hist["gov.evm."+st]++
		default:
			wl := []string{g.Who["a1"].Acc().String()}
			if r.Intn(2) == 0 {
				wl = append(wl, g.Who["a2"].Acc().String())
			}
			st, _ := GovUpdateParams(c, cpctypes.Params{ProtocolVersion: 1, WhitelistedDeployers: wl})
			g.Hist["gov.cpc."+st]++
		}
		return
	case x < 97: // disabled flag through the keeper
		d := DumpReg(c)
		if len(d.Metas) > 0 {
			m := d.Metas[r.Intn(len(d.Metas))]
			st := SetDisabled(c, m.KeyAddr, r.Intn(3) != 0)
			g.Hist["setDisabled."+st]++
		}
		return
	default: // empty block(s): the base fee decays
		c.Deliver()
		g.Hist["empty"]++
		return
	}
	bo := c.Deliver(txs...)
	if bo.Panic != nil || bo.Err != nil {
		panic(fmt.Sprint("block failed: ", bo.Panic, bo.Err))
	}
	for _, r := range bo.Res.TxResults {
		g.Hist[fmt.Sprintf("ethtx.code%d", r.Code)]++
	}
}

// pickMinGasPrice chooses a global min gas price relative to a base fee: mostly with a fractional part (x.5, x.75, 0.9),
// below and above the base fee.  The fee market's floor of the base fee is the TRUNCATED min gas price, so a base fee that
// has decayed onto its floor sits strictly below a fractional min gas price.
func pickMinGasPrice(r *rand.Rand, baseFee int64) string {
	if baseFee < 2 {
		baseFee = 2
	}
	if baseFee > 200 {
		baseFee = 200
	}
	switch r.Intn(10) {
	case 0:
		return "0"
	case 1:
		return fmt.Sprint(1 + r.Intn(5))
	case 2:
		return "0.9"
	case 3:
		return fmt.Sprintf("%d.5", baseFee/2)
	case 4:
		return fmt.Sprintf("%d.75", baseFee-1-int64(r.Intn(int(baseFee/2)+1))/2)
	case 5:
		return fmt.Sprintf("%d.25", baseFee/3+1)
	case 6:
		return fmt.Sprintf("%d.5", baseFee+2)
	case 7:
		return fmt.Sprintf("%d.75", baseFee+10)
	case 8:
		return fmt.Sprintf("%d.5", baseFee)
	default:
		return fmt.Sprintf("%d.000000000000000001", 3+r.Intn(20))
	}
}

func govAuthority() string { return authtypes.NewModuleAddress(govtypes.ModuleName).String() }

// GovMsg runs one message through a real governance proposal (see GovUpdateParams).
func GovMsg(c *chain.Chain, msg sdk.Msg) (string, string) {
	val := c.Accts[iVal]
	sub, err := govv1.NewMsgSubmitProposal([]sdk.Msg{msg}, sdk.NewCoins(sdk.NewInt64Coin(chain.Denom, 1)), val.Acc().String(), "", "params", "update", false)
	if err != nil {
		return "build-error", err.Error()
	}
	out := DeliverCosmos(c, val, []sdk.Msg{sub}, chain.CosmosTxOpts{})
	if out.Code != 0 {
		return "submit-rejected", trunc(out.Log, 200)
	}
	var td sdk.TxMsgData
	if err := td.Unmarshal(out.Data); err != nil || len(td.MsgResponses) != 1 {
		return "submit-noid", ""
	}
	var sr govv1.MsgSubmitProposalResponse
	if err := sr.Unmarshal(td.MsgResponses[0].Value); err != nil {
		return "submit-noid", err.Error()
	}
	if out := DeliverCosmos(c, val, []sdk.Msg{govv1.NewMsgVote(val.Acc(), sr.ProposalId, govv1.OptionYes, "")}, chain.CosmosTxOpts{}); out.Code != 0 {
		return "vote-rejected", trunc(out.Log, 200)
	}
	for i := 0; i < 4; i++ {
		c.Deliver()
		prop, err := c.App.GovKeeper.Proposals.Get(c.Ctx(), sr.ProposalId)
		if err != nil {
			return "proposal-missing", err.Error()
		}
		switch prop.Status {
		case govv1.StatusPassed:
			return "passed", ""
		case govv1.StatusFailed:
			return "failed", trunc(prop.FailedReason, 200)
		case govv1.StatusRejected:
			return "rejected", ""
		}
	}
	return "still-voting", ""
}

// ---------------------------------------------------------------------------------------------
// observation of the four custom modules
// ---------------------------------------------------------------------------------------------

// Observe projects the state of evm, feemarket, cpc and vauth visible in ctx: raw store dumps plus the module queries.
func (g *GenWorld) Observe(app *chainapp.Evermint, ctx sdk.Context) trace.M {
	t := g.T
	// --- evm: raw store
	codeByHash := map[common.Hash][]byte{}
	hashOf := map[common.Address]common.Hash{}
	stor := map[string]trace.M{}
	other := 0
	var evmParamsRaw, chainID []byte
	st := ctx.KVStore(app.GetKey(evmtypes.StoreKey))
	it := storetypes.KVStorePrefixIterator(st, nil)
	for ; it.Valid(); it.Next() {
		k, v := it.Key(), it.Value()
		switch {
		case k[0] == evmtypes.KeyPrefixCode[0] && len(k) == 33:
			codeByHash[common.BytesToHash(k[1:])] = append([]byte{}, v...)
		case k[0] == evmtypes.KeyPrefixCodeHash[0] && len(k) == 21:
			hashOf[common.BytesToAddress(k[1:])] = common.BytesToHash(v)
		case k[0] == evmtypes.KeyPrefixStorage[0] && len(k) == 53:
			a := g.name(common.BytesToAddress(k[1:21]))
			if stor[a] == nil {
				stor[a] = trace.M{}
			}
			stor[a][slotTok(t, k[21:])] = valTok(t, v)
		case k[0] == evmtypes.KeyPrefixParams[0] && len(k) == 1:
			evmParamsRaw = append([]byte{}, v...)
		case k[0] == evmtypes.KeyPrefixBlockHash[0]:
			// block hashes of the old chain: not part of the property's observable state
		case k[0] == evmtypes.KeyEip155ChainId[0]:
			chainID = append([]byte{}, v...)
		default:
			other++
		}
	}
	it.Close()
	code := trace.M{}
	for a, hh := range hashOf {
		if c, ok := codeByHash[hh]; ok {
			code[g.name(a)] = g.codeTok(c)
		} else {
			code[g.name(a)] = "code-bytes-missing"
		}
	}
	storM := trace.M{}
	for a, m := range stor {
		storM[a] = m
	}
	// --- evm: queries over the universe
	qcode, qstor := trace.M{}, trace.M{}
	var names []string
	for a := range g.Names {
		names = append(names, strings.ToLower(a.Hex()))
	}
	sort.Strings(names)
	for _, hx := range names {
		a := common.HexToAddress(hx)
		if rsp, err := app.EvmKeeper.Code(ctx, &evmtypes.QueryCodeRequest{Address: a.Hex()}); err == nil && len(rsp.Code) > 0 {
			qcode[g.name(a)] = g.codeTok(rsp.Code)
		}
		m := trace.M{}
		for s := uint64(0); s <= 7; s++ {
			rsp, err := app.EvmKeeper.Storage(ctx, &evmtypes.QueryStorageRequest{Address: a.Hex(), Key: h(s).Hex()})
			if err == nil && common.HexToHash(rsp.Value) != (common.Hash{}) {
				m[fmt.Sprintf("s%d", s)] = valTok(t, common.HexToHash(rsp.Value).Bytes())
			}
		}
		if len(m) > 0 {
			qstor[g.name(a)] = m
		}
	}
	ep := app.EvmKeeper.GetParams(ctx)
	epj, _ := json.Marshal(ep)
	evmObs := trace.M{"code": code, "stor": storM, "qcode": qcode, "qstor": qstor, "params": t.T(string(epj)), "paramsRaw": t.T(hex.EncodeToString(evmParamsRaw)),
		"chainId": t.T(hex.EncodeToString(chainID)), "other": other}

	// --- feemarket
	fp := app.FeeMarketKeeper.GetParams(ctx)
	fmKeys := 0
	fit := storetypes.KVStorePrefixIterator(ctx.KVStore(app.GetKey(feemarkettypes.StoreKey)), nil)
	for ; fit.Valid(); fit.Next() {
		fmKeys++
	}
	fit.Close()
	fmObs := trace.M{"baseFee": trace.I(fp.BaseFee.BigInt()), "minGasPrice": t.T(fp.MinGasPrice.String()), "keys": fmKeys,
		// for the coverage count only: the base fee sits on the truncated floor of a fractional min gas price
		"onFracFloor": !fp.MinGasPrice.IsInteger() && fp.BaseFee.Equal(fp.MinGasPrice.TruncateInt()),
		"belowMinGasPrice": sdkmath.LegacyNewDecFromInt(fp.BaseFee).LT(fp.MinGasPrice)}
	if rsp, err := app.FeeMarketKeeper.BaseFee(ctx, &feemarkettypes.QueryBaseFeeRequest{}); err == nil && !rsp.BaseFee.IsNil() {
		fmObs["qBaseFee"] = trace.I(rsp.BaseFee.BigInt())
	} else {
		fmObs["qBaseFee"] = -1
	}

	// --- cpc
	cc := &chain.Chain{App: app}
	d := dumpRegCtx(cc, ctx)
	meta := trace.M{}
	for _, m := range d.Metas {
		rec := trace.M{"type": typeName(m.Meta.CustomPrecompiledType), "name": t.T(m.Meta.Name), "typed": t.T(m.Meta.TypedMeta), "disabled": m.Meta.Disabled,
			"keyOk": common.BytesToAddress(m.Meta.Address) == m.KeyAddr}
		meta[g.name(m.KeyAddr)] = rec
	}
	qmeta := trace.M{}
	for _, q := range d.QMetas {
		qmeta[g.name(common.HexToAddress(q.Address))] = trace.M{"type": typeOfQueryName(q.TypeName), "name": t.T(q.Meta.Name), "typed": t.T(q.Meta.TypedMeta), "disabled": q.Meta.Disabled, "keyOk": true}
	}
	idx := trace.M{}
	for dn, a := range d.Index {
		idx[dn] = g.name(a)
	}
	allow := trace.M{}
	for k, v := range d.Allow {
		kb, _ := hex.DecodeString(k)
		vb, _ := hex.DecodeString(v)
		allow[g.name(common.BytesToAddress(kb[:20]))+">"+g.name(common.BytesToAddress(kb[20:]))] = valTok(t, vb)
	}
	wl := []string{}
	for _, w := range d.Params.WhitelistedDeployers {
		wl = append(wl, g.whoName(w))
	}
	cpcObs := trace.M{"meta": meta, "qmeta": qmeta, "idx": idx, "allow": allow, "wl": wl, "ver": trace.U(uint64(d.Params.ProtocolVersion)), "nonce": trace.U(d.Nonce), "other": d.Other}

	// --- vauth
	proofs, qproofs := trace.M{}, trace.M{}
	vother := 0
	vit := storetypes.KVStorePrefixIterator(ctx.KVStore(app.GetKey(vauthtypes.StoreKey)), nil)
	for ; vit.Valid(); vit.Next() {
		k, v := vit.Key(), vit.Value()
		if k[0] != vauthtypes.KeyPrefixProofExternalOwnedAccount[0] || len(k) != 21 {
			vother++
			continue
		}
		var p vauthtypes.ProofExternalOwnedAccount
		app.AppCodec().MustUnmarshal(v, &p)
		proofs[g.name(common.BytesToAddress(k[1:]))] = t.T(p.Account + "|" + p.Hash + "|" + p.Signature)
	}
	vit.Close()
	for _, hx := range names {
		a := common.HexToAddress(hx)
		if p := app.VAuthKeeper.GetProofExternalOwnedAccount(ctx, a.Bytes()); p != nil {
			qproofs[g.name(a)] = t.T(p.Account + "|" + p.Hash + "|" + p.Signature)
		}
	}
	vObs := trace.M{"proofs": proofs, "qproofs": qproofs, "other": vother}
	return trace.M{"evm": evmObs, "fm": fmObs, "cpc": cpcObs, "vauth": vObs}
}

func (g *GenWorld) whoName(bech string) string {
	for n, a := range g.Who {
		if a.Acc().String() == bech {
			return n
		}
	}
	return g.T.T(bech)
}

func (g *GenWorld) codeTok(code []byte) string {
	if id := g.Tbl.IDOfCode(code); !strings.HasPrefix(id, "?") {
		return id
	}
	return g.T.T("code:" + hex.EncodeToString(code))
}

// ---------------------------------------------------------------------------------------------
// projection of an exported genesis document (the four custom modules)
// ---------------------------------------------------------------------------------------------

func canonical(raw json.RawMessage) string {
	var v interface{}
	if err := json.Unmarshal(raw, &v); err != nil {
		return "unparsable:" + string(raw)
	}
	bz, _ := json.Marshal(v) // maps are written with sorted keys
	return string(bz)
}

// ProjectExport renders the evm / feemarket / cpc / vauth parts of an application state document.
func (g *GenWorld) ProjectExport(cdc *params.EncodingConfig, appState json.RawMessage) trace.M {
	t := g.T
	var gs map[string]json.RawMessage
	if err := json.Unmarshal(appState, &gs); err != nil {
		panic(err)
	}
	out := trace.M{}
	rawTok := trace.M{}
	for _, m := range []string{evmtypes.ModuleName, feemarkettypes.ModuleName, cpctypes.ModuleName, vauthtypes.ModuleName} {
		rawTok[m] = t.T(m + ":" + canonical(gs[m]))
	}
	out["rawTok"] = rawTok
	// evm
	var eg evmtypes.GenesisState
	cdc.Codec.MustUnmarshalJSON(gs[evmtypes.ModuleName], &eg)
	accts := trace.M{}
	dup := false
	for _, a := range eg.Accounts {
		n := g.name(common.HexToAddress(a.Address))
		if _, seen := accts[n]; seen {
			dup = true
		}
		st := trace.M{}
		for _, s := range a.Storage {
			k := slotTok(t, common.HexToHash(s.Key).Bytes())
			if _, seen := st[k]; seen {
				dup = true
			}
			st[k] = valTok(t, common.HexToHash(s.Value).Bytes())
		}
		code := "none"
		if a.Code != "" {
			code = g.codeTok(common.Hex2Bytes(a.Code))
		}
		accts[n] = trace.M{"code": code, "stor": st}
	}
	epj, _ := json.Marshal(eg.Params)
	out["evm"] = trace.M{"accounts": accts, "params": t.T(string(epj)), "dup": dup}
	// feemarket
	var fg feemarkettypes.GenesisState
	cdc.Codec.MustUnmarshalJSON(gs[feemarkettypes.ModuleName], &fg)
	out["fm"] = trace.M{"baseFee": trace.I(fg.Params.BaseFee.BigInt()), "minGasPrice": t.T(fg.Params.MinGasPrice.String())}
	// cpc: the format has params and two flags; anything else in the document is reported as `extra`
	var cg cpctypes.GenesisState
	cdc.Codec.MustUnmarshalJSON(gs[cpctypes.ModuleName], &cg)
	wl := []string{}
	for _, w := range cg.Params.WhitelistedDeployers {
		wl = append(wl, g.whoName(w))
	}
	var cgMap map[string]json.RawMessage
	_ = json.Unmarshal(gs[cpctypes.ModuleName], &cgMap)
	var extra []string
	for k := range cgMap {
		if k != "params" && k != "deploy_erc20_native" && k != "deploy_staking_contract" {
			extra = append(extra, k)
		}
	}
	sort.Strings(extra)
	out["cpc"] = trace.M{"wl": wl, "ver": trace.U(uint64(cg.Params.ProtocolVersion)), "flagErc20": cg.DeployErc20Native, "flagStaking": cg.DeployStakingContract, "extra": strings.Join(extra, ",")}
	// vauth: the format is empty
	out["vauth"] = trace.M{"doc": canonical(gs[vauthtypes.ModuleName])}
	return out
}

// moduleExports calls the real ExportGenesis functions of the four modules on ctx (used for the state right after
// InitChain, which ExportAppStateAndValidators cannot see before the first commit).
func moduleExports(app *chainapp.Evermint, ctx sdk.Context) json.RawMessage {
	cdc := app.AppCodec()
	gs := map[string]json.RawMessage{}
	gs[evmtypes.ModuleName] = cdc.MustMarshalJSON(evm.ExportGenesis(ctx, app.EvmKeeper))
	gs[feemarkettypes.ModuleName] = cdc.MustMarshalJSON(feemarket.ExportGenesis(ctx, app.FeeMarketKeeper))
	cg := cpc.ExportGenesis(ctx, app.CPCKeeper)
	gs[cpctypes.ModuleName] = cdc.MustMarshalJSON(&cg)
	gs[vauthtypes.ModuleName] = vauth.NewAppModule(cdc, app.VAuthKeeper).ExportGenesis(ctx, cdc)
	bz, err := json.Marshal(gs)
	if err != nil {
		panic(err)
	}
	return bz
}

// Defaults is the registry a fresh genesis with all flags produces (what the boolean flags of the export stand for).
func (g *GenWorld) Defaults() trace.M {
	c := NewRegChain(RegOpts{Erc20Native: true, Staking: true})
	d := DumpReg(c)
	out := trace.M{}
	for _, m := range d.Metas {
		rec := trace.M{"type": typeName(m.Meta.CustomPrecompiledType), "name": g.T.T(m.Meta.Name), "typed": g.T.T(m.Meta.TypedMeta), "disabled": m.Meta.Disabled, "keyOk": true}
		switch m.Meta.CustomPrecompiledType {
		case cpctypes.CpcTypeErc20:
			out["native"] = rec
		case cpctypes.CpcTypeStaking:
			out["stk"] = rec
		case cpctypes.CpcTypeBech32:
			out["b32"] = rec
		}
	}
	return out
}

// RoundTrip exports the current state, initialises a fresh application from the export and records
// (state, export, re-imported state, second export) plus the continuation of both chains by one empty block.
func (g *GenWorld) RoundTrip(tid string, k int) (rec trace.M) {
	a := g.C
	rec = trace.M{"ev": "RoundTrip", "tid": tid, "k": k, "h": a.Height}
	defer func() {
		if r := recover(); r != nil {
			rec["failed"] = "panic: " + trunc(fmt.Sprint(r), 300)
		}
	}()
	rec["failed"] = "none"
	obsA := g.Observe(a.App, a.Ctx())
	exp, err := a.App.ExportAppStateAndValidators(false, nil, nil)
	if err != nil {
		rec["failed"] = "export: " + trunc(err.Error(), 300)
		return rec
	}
	enc := a.Enc
	rec["A"] = obsA
	rec["X1"] = g.ProjectExport(&enc, exp.AppState)
	// fresh application from the export
	db := sdkdb.NewMemDB()
	app, enc2 := chain.NewApp(db, a.Opts)
	cp := exp.ConsensusParams
	if _, err := app.InitChain(&abci.RequestInitChain{ChainId: chain.ChainID, ConsensusParams: &cp, AppStateBytes: exp.AppState,
		Time: time.Unix(chain.T0+a.Height*chain.BlockSecs, 0).UTC(), InitialHeight: exp.Height}); err != nil {
		rec["failed"] = "InitChain: " + trunc(err.Error(), 300)
		return rec
	}
	b := &chain.Chain{App: app, DB: db, Enc: enc2, Opts: a.Opts, Accts: a.Accts, Vals: a.Vals, Height: exp.Height - 1, Genesis: exp.AppState, ConsParams: &cp, ProposerIdx: a.ProposerIdx}
	ctxB := app.BaseApp.NewContextLegacy(false, cmtproto.Header{Height: exp.Height, Time: chain.BlockTime(exp.Height), ChainID: chain.ChainID})
	rec["B"] = g.Observe(app, ctxB)
	rec["X2"] = g.ProjectExport(&enc2, moduleExports(app, ctxB))
	// continuation: the same empty block on a copy of A and on B, then full exports of both
	a2 := a.Clone()
	boA := a2.Deliver()
	boB := b.Deliver()
	if boA.Panic != nil || boA.Err != nil || boB.Panic != nil || boB.Err != nil {
		rec["failed"] = trunc(fmt.Sprintf("continuation block: A %v %v / B %v %v", boA.Panic, boA.Err, boB.Panic, boB.Err), 300)
		return rec
	}
	rec["A1"] = g.Observe(a2.App, a2.Ctx())
	rec["B1"] = g.Observe(b.App, b.Ctx())
	expA1, errA := a2.App.ExportAppStateAndValidators(false, nil, nil)
	expB1, errB := b.App.ExportAppStateAndValidators(false, nil, nil)
	if errA != nil || errB != nil {
		rec["failed"] = trunc(fmt.Sprintf("second full export: %v / %v", errA, errB), 300)
		return rec
	}
	rec["X1c"] = g.ProjectExport(&enc, expA1.AppState)
	rec["X2c"] = g.ProjectExport(&enc2, expB1.AppState)
	return rec
}

// GenesisGenOpts of a run.
type GenesisGenOpts struct {
	Seed   int64
	Traces int
	Blocks int
	Every  int // round trip after every this many blocks (and at the end)
	Shard  int
	Shards int
}

// GenGenesis writes the round-trip records of Traces histories.
func GenGenesis(w *trace.W, o GenesisGenOpts) map[string]int {
	stats := map[string]int{}
	rng := rand.New(rand.NewSource(o.Seed))
	toks := NewToks()
	var defaults trace.M
	for i := 0; i < o.Traces; i++ {
		seed := rng.Int63()
		if o.Shards > 1 && i%o.Shards != o.Shard {
			continue
		}
		g := NewGenWorld(seed, toks)
		if defaults == nil {
			defaults = g.Defaults()
		}
		tid := fmt.Sprintf("gen-%d-%d", o.Seed, i)
		w.Emit(trace.M{"ev": "Genesis", "tid": tid, "defaults": defaults, "bondDenom": chain.Denom,
			"flags": trace.M{"erc20": g.C.Opts.CpcDeployErc20Native, "staking": g.C.Opts.CpcDeployStaking}})
		k := 0
		for blk := 1; blk <= o.Blocks; blk++ {
			g.Step()
			if blk%o.Every == 0 || blk == o.Blocks {
				// idle blocks before some exports: the base fee decays towards (and onto) its floor
				idle := []int{0, 0, 3, 8, 24}[g.R.Intn(5)]
				for i := 0; i < idle; i++ {
					g.C.Deliver()
				}
				g.Hist["idle-blocks-before-export"] += idle
				rec := g.RoundTrip(tid, k)
				hist := trace.M{}
				for kk, v := range g.Hist {
					hist[kk] = v
				}
				rec["hist"] = hist
				w.Emit(rec)
				k++
				stats["roundtrips"]++
			}
		}
		for kk, v := range g.Hist {
			stats["hist."+kk] += v
		}
		stats["histories"]++
	}
	return stats
}
