// Package misc holds the drivers of the check family `misc`: the custom-precompile registry
// (C17, CpcRegistry.tla) and the genesis export/import round trip (C18, Genesis.tla).
package misc

import (
	"encoding/hex"
	"encoding/json"
	"fmt"
	"math/big"
	"strings"

	abci "github.com/cometbft/cometbft/abci/types"
	sdk "github.com/cosmos/cosmos-sdk/types"
	"github.com/ethereum/go-ethereum/accounts/abi"
	"github.com/ethereum/go-ethereum/common"
	"github.com/ethereum/go-ethereum/common/hexutil"
	ethtypes "github.com/ethereum/go-ethereum/core/types"

	evmtypes "github.com/EscanBE/evermint/v12/x/evm/types"

	"verifharness/asm"
	"verifharness/chain"
	"verifharness/obs"
)

// Modes in which the EVM exposure of an address is probed.
var Modes = []string{"deliver", "check", "simulate", "eth_call", "estimate", "trace"}

// ProxyKinds are the call opcodes of the four probe proxies.
var ProxyKinds = []string{"CALL", "STATICCALL", "DELEGATECALL", "CALLCODE"}

var proxyOp = map[string]byte{"CALL": asm.CALL, "STATICCALL": asm.STATICCALL, "DELEGATECALL": asm.DELEGATECALL, "CALLCODE": asm.CALLCODE}

// ProxyAddr is the genesis address of the proxy doing the given call kind.
func ProxyAddr(kind string) common.Address {
	for i, k := range ProxyKinds {
		if k == kind {
			return common.HexToAddress(fmt.Sprintf("0x00000000000000000000000000000000bbbb%04x", i+1))
		}
	}
	panic("kind")
}

// ProxyCode: calldata = target(20) || input.  Calls target with input through the given opcode and
// (CALL / CALLCODE forward the transaction's value) and returns success(32) || returndata.
func ProxyCode(kind string) []byte {
	op := proxyOp[kind]
	a := asm.New()
	a.Op(asm.PUSH1, 20, asm.CALLDATASIZE, 0x03)                       // n = size-20
	a.Op(asm.DUP1, asm.PUSH1, 20, asm.PUSH1, 0, asm.CALLDATACOPY)     // mem[0..n) = calldata[20..]
	a.Op(asm.PUSH1, 0, asm.PUSH1, 0, 0x82 /*DUP3*/, asm.PUSH1, 0)     // outSize outOff inSize inOff
	if op == asm.CALL || op == asm.CALLCODE {
		a.Op(asm.CALLVALUE) // the value sent along with the probe is forwarded
	}
	a.Op(asm.PUSH1, 0, asm.CALLDATALOAD, asm.PUSH1, 96, 0x1c /*SHR*/) // target
	a.Op(asm.GAS, op)
	a.Op(asm.PUSH1, 0, asm.MSTORE)                                             // mem[0..32) = success
	a.Op(asm.RETURNDATASIZE, asm.PUSH1, 0, asm.PUSH1, 32, asm.RETURNDATACOPY)  // mem[32..) = returndata
	a.Op(asm.RETURNDATASIZE, asm.PUSH1, 32, asm.ADD, asm.PUSH1, 0, asm.RETURN) // return 32+rds bytes
	return a.B
}

// ProxyContracts are the genesis contracts of the probes.
func ProxyContracts() []chain.GenContract {
	var out []chain.GenContract
	for _, k := range ProxyKinds {
		out = append(out, chain.GenContract{Addr: ProxyAddr(k), Code: ProxyCode(k)})
	}
	return out
}

// Raw is what one execution showed: user-visible result and the frame the tracer hook saw at the target.
type Raw struct {
	// user-visible
	UOk    bool   // no VM error reported / no error returned
	URet   []byte // return data visible to the caller of the API (nil when the API shows none)
	UHas   bool   // the API shows return data at all
	UErr   string
	Admit  bool // tx admitted (deliver: code 0; check: code 0; ...)
	Detail string
	// hook H1: frame whose callee is the target
	HSeen bool
	HErr  string
	HOut  []byte
}

func frameAt(f *obs.Frame, target common.Address, rootOnly bool) *obs.Frame {
	if f == nil {
		return nil
	}
	if f.To == target {
		return f
	}
	if rootOnly {
		return nil
	}
	for _, c := range f.Children {
		if r := frameAt(c, target, false); r != nil {
			return r
		}
	}
	return nil
}

// pickExec selects, among the EVM instances run by one API call, the one that tells what happened at target:
// the last execution that reached the target and did not run out of gas (EstimateGas runs a binary search).
func pickExec(execs []*obs.Exec, target common.Address) *obs.Frame {
	var best *obs.Frame
	for _, e := range execs {
		f := frameAt(e.Root, target, false)
		if f == nil {
			continue
		}
		if e.Root.Err == "oog" && best != nil {
			continue
		}
		if f.Err == "oog" && best != nil {
			continue
		}
		best = f
	}
	return best
}

// Prober issues probe calls against a chain from one funded EOA.
type Prober struct {
	C    *chain.Chain
	From *chain.Acct
}

func (p *Prober) gasPrice() *big.Int {
	bf := p.C.BaseFee()
	return new(big.Int).Add(bf, big.NewInt(1))
}

// request = (to, data) as seen by the EVM root call.
func request(target common.Address, input []byte, via string) (common.Address, []byte) {
	if via == "direct" {
		return target, input
	}
	return ProxyAddr(via), append(append([]byte{}, target.Bytes()...), input...)
}

const probeGas = 200000

func (p *Prober) legacy(nonce uint64, to common.Address, data []byte, value int64) *ethtypes.LegacyTx {
	return &ethtypes.LegacyTx{Nonce: nonce, GasPrice: p.gasPrice(), Gas: probeGas, To: &to, Value: big.NewInt(value), Data: data}
}

func ethResponse(data []byte) (*evmtypes.MsgEthereumTxResponse, error) {
	var td sdk.TxMsgData
	if err := td.Unmarshal(data); err != nil {
		return nil, err
	}
	if len(td.MsgResponses) != 1 {
		return nil, fmt.Errorf("%d msg responses", len(td.MsgResponses))
	}
	var r evmtypes.MsgEthereumTxResponse
	if err := r.Unmarshal(td.MsgResponses[0].Value); err != nil {
		return nil, err
	}
	return &r, nil
}

func fillHook(r *Raw, execs []*obs.Exec, target common.Address) {
	if f := pickExec(execs, target); f != nil {
		r.HSeen, r.HErr, r.HOut = true, f.Err, f.Output
	}
}

// One request to probe.
type Req struct {
	Target common.Address
	Input  []byte
	Via    string
	Value  int64 // wei sent with the top-level message
}

// Deliver executes all requests as real transactions of one block (at most maxPerBlock per block).
func (p *Prober) Deliver(reqs []Req, n0 uint64) []Raw {
	out := make([]Raw, len(reqs))
	const maxPerBlock = 40
	for base := 0; base < len(reqs); base += maxPerBlock {
		end := base + maxPerBlock
		if end > len(reqs) {
			end = len(reqs)
		}
		nonce := n0
		if base > 0 {
			nonce = p.C.Seq(p.From.Addr) // fresh check state after the previous commit
		}
		var txs [][]byte
		for i := base; i < end; i++ {
			to, data := request(reqs[i].Target, reqs[i].Input, reqs[i].Via)
			txs = append(txs, p.C.EthTx(p.From, p.legacy(nonce+uint64(i-base), to, data, reqs[i].Value)))
		}
		obs.Drain()
		bo := p.C.Deliver(txs...)
		execs := obs.Drain()
		if bo.Panic != nil || bo.Err != nil {
			for i := base; i < end; i++ {
				out[i].Detail = fmt.Sprintf("block failed: %v %v", bo.Panic, bo.Err)
			}
			continue
		}
		byKey := map[string][]*obs.Exec{}
		for _, e := range execs {
			byKey[e.TxKey] = append(byKey[e.TxKey], e)
		}
		for i := base; i < end; i++ {
			res := bo.Res.TxResults[i-base]
			r := &out[i]
			r.Admit = res.Code == 0
			if res.Code != 0 {
				r.Detail = fmt.Sprintf("code %d %s: %s", res.Code, res.Codespace, trunc(res.Log, 120))
				continue
			}
			rsp, err := ethResponse(res.Data)
			if err != nil {
				r.Detail = "bad response data: " + err.Error()
				continue
			}
			r.UOk, r.URet, r.UHas, r.UErr = rsp.VmError == "", rsp.Ret, true, rsp.VmError
			fillHook(r, byKey[obs.TxKey(txs[i-base])], reqs[i].Target)
		}
	}
	return out
}

// Check runs CheckTx (mode New) for one request; the mempool state is thrown away by the next commit.
func (p *Prober) Check(q Req, nonce uint64) Raw {
	var r Raw
	to, data := request(q.Target, q.Input, q.Via)
	tx := p.C.EthTx(p.From, p.legacy(nonce, to, data, q.Value))
	obs.Drain()
	res, err := p.C.App.CheckTx(&abci.RequestCheckTx{Tx: tx, Type: abci.CheckTxType_New})
	execs := obs.Drain()
	if err != nil {
		r.Detail = "checktx error: " + err.Error()
		return r
	}
	r.Admit = res.Code == 0
	if res.Code != 0 {
		r.Detail = fmt.Sprintf("code %d %s: %s", res.Code, res.Codespace, trunc(res.Log, 120))
	}
	r.UOk = res.Code == 0
	fillHook(&r, execs, q.Target)
	return r
}

// Simulate runs the application's Simulate entry point (gas estimation of Cosmos clients).
func (p *Prober) Simulate(q Req, nonce uint64) Raw {
	var r Raw
	to, data := request(q.Target, q.Input, q.Via)
	tx := p.C.EthTx(p.From, p.legacy(nonce, to, data, q.Value))
	obs.Drain()
	_, res, err := p.C.App.Simulate(tx)
	execs := obs.Drain()
	if err != nil {
		r.Detail = "simulate error: " + trunc(err.Error(), 160)
		return r
	}
	r.Admit = true
	rsp, err := ethResponse(res.Data)
	if err != nil {
		r.Detail = "bad response data: " + err.Error()
		return r
	}
	r.UOk, r.URet, r.UHas, r.UErr = rsp.VmError == "", rsp.Ret, true, rsp.VmError
	// the handler run is the last EVM instance of the simulation (the ante trial run comes first)
	var last []*obs.Exec
	for _, e := range execs {
		if frameAt(e.Root, q.Target, false) != nil {
			last = []*obs.Exec{e}
		}
	}
	fillHook(&r, last, q.Target)
	return r
}

func callArgs(from common.Address, to common.Address, data []byte, value int64) []byte {
	g := hexutil.Uint64(probeGas)
	d := hexutil.Bytes(data)
	v := (*hexutil.Big)(big.NewInt(value))
	bz, err := json.Marshal(evmtypes.TransactionArgs{From: &from, To: &to, Gas: &g, Data: &d, Value: v})
	if err != nil {
		panic(err)
	}
	return bz
}

// EthCall is the keeper's eth_call.
func (p *Prober) EthCall(q Req) Raw {
	var r Raw
	to, data := request(q.Target, q.Input, q.Via)
	obs.Drain()
	rsp, err := p.C.App.EvmKeeper.EthCall(p.C.Ctx(), &evmtypes.EthCallRequest{Args: callArgs(p.From.Addr, to, data, q.Value), GasCap: 25_000_000})
	execs := obs.Drain()
	if err != nil {
		r.Detail = "eth_call error: " + trunc(err.Error(), 160)
		return r
	}
	r.Admit = true
	r.UOk, r.URet, r.UHas, r.UErr = rsp.VmError == "", rsp.Ret, true, rsp.VmError
	fillHook(&r, execs, q.Target)
	return r
}

// Estimate is the keeper's eth_estimateGas.
func (p *Prober) Estimate(q Req) Raw {
	var r Raw
	to, data := request(q.Target, q.Input, q.Via)
	obs.Drain()
	rsp, err := p.C.App.EvmKeeper.EstimateGas(p.C.Ctx(), &evmtypes.EthCallRequest{Args: callArgs(p.From.Addr, to, data, q.Value), GasCap: 25_000_000})
	execs := obs.Drain()
	r.Admit = true
	if err != nil {
		r.UOk, r.UErr = false, err.Error()
	} else {
		r.UOk = true
		r.Detail = fmt.Sprint(rsp.Gas)
	}
	fillHook(&r, execs, q.Target)
	return r
}

// Trace is the keeper's debug_traceTransaction backend with the default struct logger.
func (p *Prober) Trace(q Req, nonce uint64) Raw {
	var r Raw
	to, data := request(q.Target, q.Input, q.Via)
	stx := chain.SignEth(p.From, p.legacy(nonce, to, data, q.Value), chain.EIP155)
	msg := chain.EthMsg(stx, p.From.Addr)
	obs.Drain()
	rsp, err := p.C.App.EvmKeeper.TraceTx(p.C.Ctx(), &evmtypes.QueryTraceTxRequest{Msg: msg, BlockNumber: p.C.Height, BlockTime: chain.BlockTime(p.C.Height),
		BlockHash: common.Hash{}.Hex(), TraceConfig: &evmtypes.TraceConfig{DisableStack: true, DisableStorage: true}})
	execs := obs.Drain()
	if err != nil {
		r.Detail = "trace error: " + trunc(err.Error(), 160)
		return r
	}
	r.Admit = true
	var tr struct {
		Failed      bool   `json:"failed"`
		ReturnValue string `json:"returnValue"`
	}
	if err := json.Unmarshal(rsp.Data, &tr); err != nil {
		r.Detail = "trace json: " + err.Error()
		return r
	}
	r.UOk, r.UHas = !tr.Failed, true
	r.URet, _ = hex.DecodeString(strings.TrimPrefix(tr.ReturnValue, "0x"))
	fillHook(&r, execs, q.Target)
	return r
}

func trunc(s string, n int) string {
	if len(s) > n {
		return s[:n]
	}
	return s
}

var abiString, _ = abi.NewType("string", "", nil)

// DecodeString decodes an ABI-encoded single string return value.
func DecodeString(ret []byte) (string, bool) {
	vals, err := abi.Arguments{{Type: abiString}}.Unpack(ret)
	if err != nil || len(vals) != 1 {
		return "", false
	}
	s, ok := vals[0].(string)
	return s, ok
}
