package staking

import (
	"fmt"
	"sort"

	sdk "github.com/cosmos/cosmos-sdk/types"
	distrkeeper "github.com/cosmos/cosmos-sdk/x/distribution/keeper"
	distrtypes "github.com/cosmos/cosmos-sdk/x/distribution/types"
	stakingtypes "github.com/cosmos/cosmos-sdk/x/staking/types"

	"verifharness/chain"
	"verifharness/trace"
)

// Project reads the staking / distribution / bank state of chain c for the universe of w:
//
//	deleg[d][v]  tokens of the delegation (shares -> tokens, truncated)
//	ubd[d][v]    unbonding entries [{t: completion - T0 (s), amt}] in stored order
//	red[d]       redelegation entries [{src, dst, t, amt}] ordered by (src, dst, stored order)
//	rew[d][v]    outstanding reward per the distribution query, truncated
//	bal[x]       bank balance of every delegator and of bonded / notbonded / distr / fc
//	vtok[v]      tokens of the validator
func (w *World) Project(c *chain.Chain) trace.M {
	ctx := c.Ctx()
	sk := c.App.StakingKeeper
	dq := distrkeeper.NewQuerier(c.App.DistrKeeper)
	deleg, ubd, red, rew, bal, vtok := trace.M{}, trace.M{}, trace.M{}, trace.M{}, trace.M{}, trace.M{}
	vals := map[string]stakingtypes.Validator{}
	for _, v := range w.V {
		val, err := sk.GetValidator(ctx, w.ValAddr(v))
		if err != nil {
			panic(err)
		}
		vals[v] = val
		vtok[v] = trace.I(val.Tokens.BigInt())
		if !val.IsBonded() {
			panic("harness chains are slashing-free: validator " + v + " is not bonded")
		}
	}
	for _, d := range w.D {
		acc := w.AccOf(d)
		dm, um, rm := trace.M{}, trace.M{}, trace.M{}
		for _, v := range w.V {
			dm[v] = int64(0)
			rm[v] = int64(0)
			if del, err := sk.GetDelegation(ctx, acc, w.ValAddr(v)); err == nil {
				dm[v] = trace.I(vals[v].TokensFromShares(del.Shares).TruncateInt().BigInt())
				res, err := dq.DelegationRewards(ctx, &distrtypes.QueryDelegationRewardsRequest{DelegatorAddress: acc.String(), ValidatorAddress: w.ValAddr(v).String()})
				if err != nil {
					panic(fmt.Errorf("rewards query %s %s: %w", d, v, err))
				}
				rm[v] = trace.I(res.Rewards.AmountOf(chain.Denom).TruncateInt().BigInt())
			}
			es := []interface{}{}
			if u, err := sk.GetUnbondingDelegation(ctx, acc, w.ValAddr(v)); err == nil {
				for _, e := range u.Entries {
					es = append(es, trace.M{"t": e.CompletionTime.Unix() - chain.T0, "amt": trace.I(e.Balance.BigInt())})
				}
			}
			um[v] = es
		}
		deleg[d], ubd[d], rew[d] = dm, um, rm
		rs, err := sk.GetRedelegations(ctx, acc, 1000)
		if err != nil {
			panic(err)
		}
		type re struct {
			src, dst string
			t, amt   int64
			i        int
		}
		var res []re
		for _, r := range rs {
			for i, e := range r.Entries {
				res = append(res, re{w.ValName(r.ValidatorSrcAddress), w.ValName(r.ValidatorDstAddress), e.CompletionTime.Unix() - chain.T0, trace.I(e.InitialBalance.BigInt()), i})
			}
		}
		sort.SliceStable(res, func(i, j int) bool {
			if res[i].t != res[j].t {
				return res[i].t < res[j].t
			}
			if res[i].src != res[j].src {
				return res[i].src < res[j].src
			}
			return res[i].dst < res[j].dst
		})
		rl := []interface{}{}
		for _, r := range res {
			rl = append(rl, trace.M{"src": r.src, "dst": r.dst, "t": r.t, "amt": r.amt})
		}
		red[d] = rl
		bal[d] = trace.I(c.Bal(w.Addr[d], chain.Denom))
	}
	for _, m := range []string{"bonded", "notbonded", "distr", "fc"} {
		bal[m] = trace.I(c.Bal(w.Addr[m], chain.Denom))
	}
	return trace.M{"deleg": deleg, "ubd": ubd, "red": red, "rew": rew, "bal": bal, "vtok": vtok}
}

// TotalRewards is the native DelegationTotalRewards query, truncated.
func (w *World) TotalRewards(c *chain.Chain, d string) int64 {
	dq := distrkeeper.NewQuerier(c.App.DistrKeeper)
	res, err := dq.DelegationTotalRewards(c.Ctx(), &distrtypes.QueryDelegationTotalRewardsRequest{DelegatorAddress: w.AccOf(d).String()})
	if err != nil {
		panic(err)
	}
	return trace.I(res.Total.AmountOf(chain.Denom).TruncateInt().BigInt())
}

var _ = sdk.AccAddress{}
