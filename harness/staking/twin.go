package staking

import (
	"fmt"
	"math/big"
	"math/rand"
	"strconv"

	abci "github.com/cometbft/cometbft/abci/types"
	sdk "github.com/cosmos/cosmos-sdk/types"
	distrtypes "github.com/cosmos/cosmos-sdk/x/distribution/types"
	stakingtypes "github.com/cosmos/cosmos-sdk/x/staking/types"
	"github.com/ethereum/go-ethereum/common"
	"github.com/ethereum/go-ethereum/common/hexutil"
	ethtypes "github.com/ethereum/go-ethereum/core/types"

	evmtypes "github.com/EscanBE/evermint/v12/x/evm/types"

	"verifharness/chain"
	"verifharness/trace"
)

var (
	topicDelegate   = common.HexToHash("0x510b11bb3f3c799b11307c01ab7db0d335683ef5b2da98f7697de744f465eacc")
	topicUndelegate = common.HexToHash("0xbda8c0e95802a0e6788c3e9027292382d5a41b86556015f846b03a9874b2b827")
	topicWithdraw   = common.HexToHash("0xad71f93891cecc86a28a627d5495c28fabbd31cdd2e93851b16ce3421fdab2e5")
)

func attr(ev abci.Event, key string) (string, bool) {
	for _, a := range ev.Attributes {
		if a.Key == key {
			return a.Value, true
		}
	}
	return "", false
}

func (w *World) accName(bech string) string {
	a, err := sdk.AccAddressFromBech32(bech)
	if err != nil {
		return "?" + bech
	}
	return w.Name(common.BytesToAddress(a.Bytes()))
}

func amountOf(s string) int64 {
	coins, err := sdk.ParseCoinsNormalized(s)
	if err != nil {
		panic(fmt.Errorf("amount attribute %q: %w", s, err))
	}
	return trace.I(coins.AmountOf(chain.Denom).BigInt())
}

// ModuleEvents extracts the staking / distribution events of a tx result:
// {k: delegate|unbond|redelegate|withdraw, d, v, src, amt}.
func (w *World) ModuleEvents(evs []abci.Event) []interface{} {
	out := []interface{}{}
	for _, ev := range evs {
		var k string
		switch ev.Type {
		case stakingtypes.EventTypeDelegate:
			k = "delegate"
		case stakingtypes.EventTypeUnbond:
			k = "unbond"
		case stakingtypes.EventTypeRedelegate:
			k = "redelegate"
		case distrtypes.EventTypeWithdrawRewards:
			k = "withdraw"
		default:
			continue
		}
		m := trace.M{"k": k, "d": "-", "v": "-", "src": "-", "amt": int64(0)}
		if s, ok := attr(ev, sdk.AttributeKeyAmount); ok {
			m["amt"] = amountOf(s)
		}
		if s, ok := attr(ev, stakingtypes.AttributeKeyDelegator); ok {
			m["d"] = w.accName(s)
		}
		if k == "redelegate" {
			s, _ := attr(ev, stakingtypes.AttributeKeySrcValidator)
			m["src"] = w.ValName(s)
			s, _ = attr(ev, stakingtypes.AttributeKeyDstValidator)
			m["v"] = w.ValName(s)
		} else if s, ok := attr(ev, stakingtypes.AttributeKeyValidator); ok {
			m["v"] = w.ValName(s)
		}
		out = append(out, m)
	}
	return out
}

func (w *World) valNameEth(a common.Address) string {
	for _, v := range w.V {
		if w.Addr[v] == a {
			return v
		}
	}
	return "?" + a.Hex()
}

// Logs decodes the logs of a receipt: {k: Delegate|Undelegate|WithdrawReward|other, d, v, amt}.
func (w *World) Logs(logs []*ethtypes.Log) []interface{} {
	out := []interface{}{}
	for _, lg := range logs {
		m := trace.M{"k": "other", "d": "-", "v": "-", "amt": int64(0), "addr": w.Name(lg.Address)}
		if lg.Address == CPC {
			m["addr"] = "cpc"
		}
		if lg.Address == CPC && len(lg.Topics) == 3 && len(lg.Data) == 32 {
			switch lg.Topics[0] {
			case topicDelegate:
				m["k"] = "Delegate"
			case topicUndelegate:
				m["k"] = "Undelegate"
			case topicWithdraw:
				m["k"] = "WithdrawReward"
			}
			m["d"] = w.Name(common.BytesToAddress(lg.Topics[1].Bytes()))
			m["v"] = w.valNameEth(common.BytesToAddress(lg.Topics[2].Bytes()))
			m["amt"] = trace.I(new(big.Int).SetBytes(lg.Data))
		}
		out = append(out, m)
	}
	return out
}

// EthResult is what the consensus result of the Ethereum transaction shows.
type EthResult struct {
	Code              uint32
	HasReceipt        bool
	Status            uint64
	GasUsed, EffPrice int64
	Logs              []interface{}
	Events            []interface{}
	Log               string
}

// ObserveEth reads the tx result of the cpc route.
func (w *World) ObserveEth(res *abci.ExecTxResult) (r EthResult) {
	r.Code = res.Code
	r.Log = res.Log
	r.Logs = []interface{}{}
	r.Events = w.ModuleEvents(res.Events)
	r.GasUsed = res.GasUsed
	for _, ev := range res.Events {
		if ev.Type != evmtypes.EventTypeTxReceipt {
			continue
		}
		r.HasReceipt = true
		mar, _ := attr(ev, evmtypes.AttributeKeyReceiptMarshalled)
		receipt := &ethtypes.Receipt{}
		if err := receipt.UnmarshalBinary(hexutil.MustDecode(mar)); err != nil {
			panic(err)
		}
		r.Status = receipt.Status
		gu, _ := attr(ev, evmtypes.AttributeKeyReceiptGasUsed)
		r.GasUsed, _ = strconv.ParseInt(gu, 10, 64)
		ep, _ := attr(ev, evmtypes.AttributeKeyReceiptEffectiveGasPrice)
		r.EffPrice, _ = strconv.ParseInt(ep, 10, 64)
		r.Logs = w.Logs(receipt.Logs)
	}
	return
}

var requiredGas = map[string]uint64{"delegate": 300_000, "undelegate": 200_000, "redelegate": 500_000, "withdrawReward": 200_000,
	"withdrawRewards": 400_000, "transfer": 800_000, "delegateByMsg": 600_000, "withdrawByMsg": 500_000}

// Call is one twin step: who calls what.
type Call struct {
	Caller, Sender string
	Ops            []Op
	Items          []Item // messages of cQ only: the calls in order, views included (Ops = the state-changing ones)
}

// SeqCall builds a message of cQ.
func SeqCall(items ...Item) Call {
	c := Call{Caller: SeqCaller, Sender: "a0", Items: items}
	for _, it := range items {
		if it.View == "" {
			c.Ops = append(c.Ops, it.Op)
		}
	}
	if len(c.Ops) == 0 {
		panic("a message of cQ carries at least one state-changing call (a twin step is about one)")
	}
	return c
}

// Step performs one twin execution at the committed state of c and returns the chain to continue from.
// pre is the projection of c (fee collector empty). cont selects the continuation ("A" precompile, "B" native).
func (w *World) Step(out *trace.W, c *chain.Chain, preM trace.M, n int, call Call, cont string, stats map[string]int) *chain.Chain {
	p := preOf(preM, w)
	price := c.BaseFee().Int64() + 1
	via := ViaOf(call.Caller)
	// the native expansion: each op of the call against the state the previous ones left is not computable here
	// without the model; for two-call steps the generator only combines ops whose expansions are independent
	var native []NativeMsg
	for _, o := range call.Ops {
		native = append(native, w.Expand(p, call.Caller, o)...)
	}
	if via == "staticcall" {
		native = nil // a read-only frame may not change state: nothing corresponds
	}
	// gas limit: what the methods declare + room for the transaction and the forwarding contract (a failing call
	// burns the whole limit)
	gas := uint64(160_000)
	for _, o := range call.Ops {
		gas += requiredGas[o.M]
	}
	// views of a message of cQ: the native queries on the state before the transaction
	natPre := make([]int64, len(call.Items))
	for i, it := range call.Items {
		if it.View != "" {
			natPre[i] = w.NativeView(c, it)
			gas += 100_000
		}
	}
	a := c.Clone()
	b := c
	// route cpc
	ethBz := w.EthTx(a, call.Sender, call.Caller, call.Ops, call.Items, gas, price)
	boA := a.Deliver(ethBz)
	if boA.Panic != nil || boA.Err != nil {
		panic(fmt.Sprint("block with the precompile call failed: ", boA.Panic, boA.Err))
	}
	er := w.ObserveEth(boA.Res.TxResults[0])
	okA := er.HasReceipt && er.Status == 1
	if via == "swallow" {
		flag := a.App.EvmKeeper.GetState(a.Ctx(), w.Addr["cW"], common.BigToHash(big.NewInt(1)))
		okA = er.HasReceipt && er.Status == 1 && flag.Big().Int64() == 2
	}
	postA := w.Project(a)
	// the message of cQ as the trace shows it: state-changing calls by their index into ops, views with the answer kept
	// by the contract and the native query before / after the transaction
	seq := []interface{}{}
	nop := 0
	for i, it := range call.Items {
		if it.View == "" {
			nop++
			seq = append(seq, trace.M{"t": "op", "i": nop, "m": "-", "d": "-", "v": "-", "cpc": int64(0), "natPre": int64(0), "natPost": int64(0)})
			continue
		}
		ans := int64(-1)
		if okA {
			ans = w.seqAnswer(a, i)
		}
		v := it.V
		if v == "" {
			v = "-"
		}
		seq = append(seq, trace.M{"t": "view", "i": 0, "m": it.View, "d": it.D, "v": v, "cpc": ans, "natPre": natPre[i], "natPost": w.NativeView(a, it)})
		stats["seqviews"]++
	}
	A := trace.M{"ok": okA, "code": int64(er.Code), "receipt": er.HasReceipt, "gasUsed": er.GasUsed, "price": er.EffPrice,
		"logs": er.Logs, "events": er.Events, "st": postA, "err": truncs(er.Log, 120)}
	// route native
	B := trace.M{"sent": false, "ok": false, "fee": int64(0), "signer": "-", "events": []interface{}{}, "code": int64(0), "err": ""}
	var boB chain.BlockOut
	if len(native) > 0 {
		bz, signer, fee := w.NativeTx(b, native, price)
		boB = b.Deliver(bz)
		if boB.Panic != nil || boB.Err != nil {
			panic(fmt.Sprint("block with the native messages failed: ", boB.Panic, boB.Err))
		}
		res := boB.Res.TxResults[0]
		B["sent"], B["ok"], B["fee"], B["signer"], B["code"], B["err"] = true, res.Code == 0, fee, signer, int64(res.Code), truncs(res.Log, 120)
		B["events"] = w.ModuleEvents(res.Events)
	} else {
		boB = b.Deliver()
		if boB.Panic != nil || boB.Err != nil {
			panic(fmt.Sprint("empty block failed: ", boB.Panic, boB.Err))
		}
	}
	B["st"] = w.Project(b)
	var ops, nat []interface{}
	for _, o := range call.Ops {
		ops = append(ops, o.J())
	}
	nat = []interface{}{}
	for _, m := range native {
		nat = append(nat, m.J())
	}
	out.Emit(trace.M{"ev": "Twin", "n": n, "now": a.Height * chain.BlockSecs, "caller": call.Caller, "sender": call.Sender, "via": via,
		"ops": ops, "native": nat, "A": A, "B": B, "cont": cont, "seq": seq})
	stats["twin"]++
	stats[fmt.Sprintf("%s/%s/%s", call.Ops[0].M, via, okStr(okA))]++
	if cont == "A" {
		return a
	}
	return b
}

func okStr(b bool) string {
	if b {
		return "ok"
	}
	return "fail"
}

func truncs(s string, n int) string {
	if len(s) > n {
		return s[:n]
	}
	return s
}

// Accrue delivers an empty block (fees of the previous block are allocated as rewards, matured entries complete).
func (w *World) Accrue(out *trace.W, c *chain.Chain) trace.M {
	bo := c.Deliver()
	if bo.Panic != nil || bo.Err != nil {
		panic(fmt.Sprint("empty block failed: ", bo.Panic, bo.Err))
	}
	st := w.Project(c)
	out.Emit(trace.M{"ev": "Accrue", "now": c.Height * chain.BlockSecs, "st": st})
	return st
}

// Genesis emits the first line of a trace.
func (w *World) Genesis(out *trace.W, tid string) trace.M {
	st := w.Project(w.C)
	eoas := []string{}
	for i := 0; i < w.NEoa; i++ {
		eoas = append(eoas, fmt.Sprintf("a%d", i))
	}
	out.Emit(trace.M{"ev": "Genesis", "tid": tid, "D": w.D, "V": w.V, "valOrder": w.ValOrder, "iter": w.Iter, "eoas": eoas, "ut": w.O.UnbondingSecs, "maxEntries": int64(w.O.MaxEntries),
		"minW": w.MinW, "decimals": int64(w.Decimals), "now": w.C.Height * chain.BlockSecs, "st": st})
	return st
}

// Gen is the seeded generator of calls.
type Gen struct {
	R *rand.Rand
	W *World
}

func (g *Gen) pick(xs ...string) string { return xs[g.R.Intn(len(xs))] }

// callers the random histories use (operators a1, a2 act as ordinary delegators too; a0 is the relayer)
var callers = []string{"a3", "a4", "a5", "a3", "a4", "a1", "cC", "cD", "cO", "cW", "cT", "cC", "cD", "cN"}

func (g *Gen) val() string {
	if g.R.Intn(25) == 0 {
		return "vx"
	}
	return g.pick(g.W.V...)
}

func (g *Gen) delegatedVal(p pre, d string) string {
	var vs []string
	for _, v := range g.W.V {
		if p.deleg[d][v] > 0 {
			vs = append(vs, v)
		}
	}
	if len(vs) == 0 || g.R.Intn(6) == 0 {
		return g.val()
	}
	return g.pick(vs...)
}

func (g *Gen) amt(max int64) int64 {
	switch g.R.Intn(20) {
	case 0:
		return 0
	case 1:
		return 2_000_000_000 // above every balance and delegation
	case 2:
		return max + 1
	}
	if max < 1 {
		max = 1
	}
	if max > 20 {
		max = 20
	}
	return 1 + g.R.Int63n(max)
}

// EdgeAmount is a transfer() amount on the border between what the caller's liquid balance covers and what only the
// rewards claimed by the same call cover: k = 0..4 -> liquid-1, liquid, liquid+1, liquid+claimable, liquid+claimable+1
// (claimable = rewards withdrawRewards() would pay: delegation > 0 and reward >= threshold).  Meaningful for contract
// callers only: they pay no fee, so their liquid balance during the call is the committed one on both routes.
func (w *World) EdgeAmount(p pre, d string, k int) int64 {
	liquid, claim := p.bal[d], int64(0)
	for _, v := range w.V {
		if p.deleg[d][v] > 0 && p.rew[d][v] >= w.MinW {
			claim += p.rew[d][v]
		}
	}
	a := []int64{liquid - 1, liquid, liquid + 1, liquid + claim, liquid + claim + 1}[k]
	if a < 1 {
		a = 1
	}
	return a
}

// Op draws one op for caller d.
func (g *Gen) Op(p pre, d string) Op {
	r := g.R.Intn(100)
	total := int64(0)
	for _, v := range g.W.V {
		total += p.deleg[d][v]
	}
	if d == "a1" || d == "a2" {
		// a validator operator keeps its self-bond (slashing-free, no validator removal)
		total = 0
		if r >= 30 && r < 60 {
			r = 0
		}
	}
	if total > 0 && r < 30 && g.R.Intn(2) == 0 {
		r = 30 + g.R.Intn(30) // who has stake undelegates / redelegates more often
	}
	switch {
	case r < 30 || (total == 0 && r < 60):
		return Op{M: "delegate", V: g.val(), Amt: g.amt(20)}
	case r < 45:
		v := g.delegatedVal(p, d)
		return Op{M: "undelegate", V: v, Amt: g.amt(p.deleg[d][v])}
	case r < 60:
		s := g.delegatedVal(p, d)
		t := g.val()
		if t == s && g.R.Intn(4) != 0 {
			t = g.val()
		}
		return Op{M: "redelegate", Src: s, V: t, Amt: g.amt(p.deleg[d][s])}
	case r < 70:
		return Op{M: "withdrawReward", V: g.delegatedVal(p, d)}
	case r < 78:
		return Op{M: "withdrawRewards"}
	case r < 88:
		to := d
		if g.R.Intn(8) == 0 {
			to = g.pick("a3", "a4", "ax")
		}
		if IsContract(d) && to == d && g.R.Intn(2) == 0 {
			return Op{M: "transfer", To: d, Amt: g.W.EdgeAmount(p, d, g.R.Intn(5))}
		}
		return Op{M: "transfer", To: to, Amt: g.amt(20)}
	default:
		return g.signed(p, d, true)
	}
}

// signed draws a signed-message op whose message names md = d; valid = all of delegator = caller = signer, our chain, untampered.
func (g *Gen) signed(p pre, d string, valid bool) Op {
	o := Op{MD: d, Signer: d, Chain: "ours", Tamper: "none"}
	if IsContract(d) {
		o.Signer = "a3"
	}
	if g.R.Intn(3) == 0 {
		o.M = "withdrawByMsg"
		o.V = g.delegatedVal(p, d)
		if g.R.Intn(2) == 0 {
			o.V = "all"
		}
		if o.V == "vx" {
			o.V = "v0"
		}
		return o
	}
	o.M = "delegateByMsg"
	switch g.R.Intn(3) {
	case 0:
		o.Act, o.V, o.Amt = "Delegate", g.pick(g.W.V...), g.amt(20)
	case 1:
		o.Act, o.V = "Undelegate", g.delegatedVal(p, d)
		o.Amt = g.amt(p.deleg[d][o.V])
	default:
		o.Act, o.Src, o.V = "Redelegate", g.delegatedVal(p, d), g.pick(g.W.V...)
		o.Amt = g.amt(p.deleg[d][o.Src])
	}
	if o.Amt == 0 {
		o.Amt = 1
	}
	return o
}

// IsSignedOp tells the signed-message variants.
func IsSignedOp(o Op) bool { return o.M == "delegateByMsg" || o.M == "withdrawByMsg" }

// Call draws one twin step.
func (g *Gen) Call(p pre) Call {
	d := g.pick(callers...)
	if g.R.Intn(40) == 0 {
		d = "cS"
	}
	if g.R.Intn(14) == 0 {
		// a message of several calls with views in between
		o := g.Op(p, SeqCaller)
		if IsSignedOp(o) {
			o = Op{M: "delegate", V: g.pick(g.W.V...), Amt: 1 + g.R.Int63n(9)}
		}
		view := func() Item {
			return Item{View: g.pick("rewardsOf", "balanceOf", "rewardOf", "delegationOf", "totalDelegationOf"), D: SeqCaller, V: g.pick(g.W.V...)}
		}
		switch g.R.Intn(3) {
		case 0:
			return SeqCall(view(), Item{Op: o}, view())
		case 1:
			return SeqCall(Item{Op: o}, view())
		}
		return SeqCall(view(), Item{Op: o})
	}
	c := Call{Caller: d, Sender: d}
	if IsContract(d) {
		c.Sender = "a0"
	}
	c.Ops = []Op{g.Op(p, d)}
	if IsContract(d) && d != "cT" && g.R.Intn(7) == 0 {
		// an EOA sends its own validly signed message through the contract: delegator = signer = tx origin # caller
		x := g.pick("a3", "a4", "a5")
		c.Sender = x
		c.Ops = []Op{g.signed(p, x, true)}
	}
	if d == "cT" {
		// two calls in one transaction whose native expansions do not depend on each other:
		// delegations to / undelegations from two different validators
		v1 := g.pick(g.W.V...)
		v2 := v1
		for v2 == v1 {
			v2 = g.pick(g.W.V...)
		}
		o1 := Op{M: "delegate", V: v1, Amt: 1 + g.R.Int63n(9)}
		o2 := Op{M: "delegate", V: v2, Amt: 1 + g.R.Int63n(9)}
		if p.deleg[d][v2] > 0 && g.R.Intn(2) == 0 {
			o2 = Op{M: "undelegate", V: v2, Amt: 1 + g.R.Int63n(p.deleg[d][v2])}
		}
		if g.R.Intn(6) == 0 {
			o2.Amt = 2_000_000_000 // the second call fails: the whole transaction must leave nothing
		}
		c.Ops = []Op{o1, o2}
	}
	return c
}
