// Package staking is the conformance driver of property C11: twin execution of the staking
// custom precompiled contract (route "cpc": a real Ethereum transaction) and of the native
// x/staking / x/distribution messages (route "native": a real Cosmos transaction) from the same
// committed state, projected onto the vocabulary of spec/StakingCpc.tla.
package staking

import (
	"bytes"
	"fmt"
	"math/big"
	"sort"
	"time"

	sdkmath "cosmossdk.io/math"
	codectypes "github.com/cosmos/cosmos-sdk/codec/types"
	sdk "github.com/cosmos/cosmos-sdk/types"
	"github.com/cosmos/cosmos-sdk/x/authz"
	banktypes "github.com/cosmos/cosmos-sdk/x/bank/types"
	distrtypes "github.com/cosmos/cosmos-sdk/x/distribution/types"
	stakingtypes "github.com/cosmos/cosmos-sdk/x/staking/types"
	"github.com/ethereum/go-ethereum/common"

	chainapp "github.com/EscanBE/evermint/v12/app"
	"github.com/EscanBE/evermint/v12/app/params"
	cpctypes "github.com/EscanBE/evermint/v12/x/cpc/types"

	"verifharness/asm"
	"verifharness/chain"
)

// RelayerExtra is the additional genesis balance of the relayer a0.
const RelayerExtra = 600_000_000

// CPC is the fixed address of the staking precompile.
var CPC = cpctypes.CpcStakingFixedAddress

// Names of the contract callers installed by the genesis.
//
//	cC  forwards its calldata to the precompile with CALL          (require success)
//	cD  ... with DELEGATECALL                                       (require success)
//	cO  ... with CALLCODE                                           (require success)
//	cS  ... with STATICCALL                                         (require success)
//	cW  ... with CALL, swallows a failure (outer tx succeeds)       (stores the flag)
//	cT  two CALLs in one transaction (calldata = len1 | payload1 | payload2)
//	cN  DELEGATECALLs cC's code, which CALLs the precompile: the calling code runs in cN's context      (nested)
//	cQ  up to three CALLs in one message, views included, every answer kept in storage (seq.go)                (seq)
var ContractNames = []string{"cC", "cD", "cO", "cS", "cW", "cT", "cN", "cQ"}

func contractAddr(i int) common.Address {
	return common.BytesToAddress(append([]byte("verif-stk-contract"), byte(i+1)))
}

// forwarder builds the runtime code of a calldata forwarder.
func forwarder(kind byte, swallow bool) []byte { return forwarderTo(kind, CPC, swallow) }

func forwarderTo(kind byte, target common.Address, swallow bool) []byte {
	a := asm.New()
	// mem[0..cds) = calldata
	a.Op(asm.CALLDATASIZE, asm.PUSH0, asm.PUSH0, asm.CALLDATACOPY)
	// retSize retOffset argsSize argsOffset [value] addr gas
	a.Op(asm.PUSH0, asm.PUSH0, asm.CALLDATASIZE, asm.PUSH0)
	if kind == asm.CALL || kind == asm.CALLCODE {
		a.Op(asm.PUSH0)
	}
	a.PushA(target).Op(asm.GAS, kind)
	if swallow {
		// slot1 := flag + 1 (so that a write always happens)
		a.PushU(1).Op(asm.ADD).PushU(1).Op(asm.SSTORE, asm.STOP)
		return a.B
	}
	return finishRequire(a)
}

// finishRequire: success flag on the stack -> STOP when 1, REVERT(0,0) when 0.
func finishRequire(a *asm.A) []byte {
	// PUSH2 ok JUMPI PUSH0 PUSH0 REVERT JUMPDEST STOP
	pos := len(a.B)
	ok := pos + 3 + 1 + 3
	a.Op(0x61, byte(ok>>8), byte(ok), asm.JUMPI, asm.PUSH0, asm.PUSH0, asm.REVERT, asm.JUMPDEST, asm.STOP)
	return a.B
}

// twice: calldata = L1 (32 bytes) | payload1 (L1 bytes) | payload2 ; two CALLs, both required.
func twice() []byte {
	a := asm.New()
	// n = cds - 32 ; CALLDATACOPY(0, 32, n)
	a.PushU(32).Op(asm.CALLDATASIZE, 0x03 /*SUB*/).PushU(32).Op(asm.PUSH0, asm.CALLDATACOPY)
	// call 1: args [0, L1)
	a.Op(asm.PUSH0, asm.PUSH0).Op(asm.PUSH0, asm.CALLDATALOAD).Op(asm.PUSH0, asm.PUSH0).PushA(CPC).Op(asm.GAS, asm.CALL)
	// require
	p := len(a.B)
	a.Op(asm.ISZERO, 0x61, 0, 0, asm.JUMPI)
	fix1 := p + 2
	// call 2: args [L1, cds-32-L1)
	a.Op(asm.PUSH0, asm.PUSH0)
	a.Op(asm.PUSH0, asm.CALLDATALOAD).PushU(32).Op(asm.CALLDATASIZE, 0x03, 0x03)
	a.Op(asm.PUSH0, asm.CALLDATALOAD).Op(asm.PUSH0).PushA(CPC).Op(asm.GAS, asm.CALL)
	p = len(a.B)
	a.Op(asm.ISZERO, 0x61, 0, 0, asm.JUMPI)
	fix2 := p + 2
	a.Op(asm.STOP)
	fail := len(a.B)
	a.Op(asm.JUMPDEST, asm.PUSH0, asm.PUSH0, asm.REVERT)
	for _, f := range []int{fix1, fix2} {
		a.B[f] = byte(fail >> 8)
		a.B[f+1] = byte(fail)
	}
	return a.B
}

// World is one chain plus the naming of its universe.
type World struct {
	C        *chain.Chain
	Names    map[common.Address]string
	Addr     map[string]common.Address
	Acct     map[string]*chain.Acct // EOAs
	D        []string               // delegators (EOAs a0.. and contracts)
	V        []string               // validators v0.. (operator of vi is ai)
	ValOrder []string               // validators ordered by operator bech32 string (tie-break of transfer())
	Iter     []string               // validators ordered by address bytes (store iteration order of a delegator's delegations)
	Decimals uint32
	MinW     int64 // minimum reward withdrawal amount of withdrawRewards()
	Relayer  *chain.Acct
	NEoa     int
	O        Opts
}

// Opts of a world.
type Opts struct {
	NEoa     int    // EOAs a0..; the first NVals are the validator operators
	NVals    int    // validators
	Decimals uint32 // 0 = deploy by genesis (18 decimals); otherwise by MsgDeployStakingContractRequest
	BaseFee  int64
	ValBond  int64
	CBal     int64 // balance of each contract caller
	// staking params
	UnbondingSecs int64
	MaxEntries    uint32
}

// DefaultOpts: 3 validators, 6 EOAs.
func DefaultOpts() Opts {
	return Opts{NEoa: 6, NVals: 3, Decimals: 6, BaseFee: 10, ValBond: 100, CBal: 1000, UnbondingSecs: 20, MaxEntries: 3}
}

// ValAddr of validator i.
func (w *World) ValAddr(v string) sdk.ValAddress { return sdk.ValAddress(w.Addr[v].Bytes()) }

// AccOf returns the cosmos address of a named account.
func (w *World) AccOf(d string) sdk.AccAddress { return sdk.AccAddress(w.Addr[d].Bytes()) }

// StakingMsgTypes are the native messages the contract callers grant to the relayer (authz).
var StakingMsgTypes = []string{
	sdk.MsgTypeURL(&stakingtypes.MsgDelegate{}), sdk.MsgTypeURL(&stakingtypes.MsgUndelegate{}),
	sdk.MsgTypeURL(&stakingtypes.MsgBeginRedelegate{}), sdk.MsgTypeURL(&distrtypes.MsgWithdrawDelegatorReward{}),
}

// New builds the chain.
func New(o Opts) *World {
	w := &World{Names: map[common.Address]string{}, Addr: map[string]common.Address{}, Acct: map[string]*chain.Acct{}, NEoa: o.NEoa, O: o}
	co := chain.DefaultOpts()
	co.NAccts = o.NEoa
	co.NVals = o.NVals
	co.ValBond = o.ValBond
	co.BaseFee = o.BaseFee
	co.Bal2 = 0
	co.Bal = 150_000_000
	co.CpcDeployStaking = o.Decimals == 0
	codes := [][]byte{forwarder(asm.CALL, false), forwarder(asm.DELEGATECALL, false), forwarder(asm.CALLCODE, false),
		forwarder(asm.STATICCALL, false), forwarder(asm.CALL, true), twice(), forwarderTo(asm.DELEGATECALL, contractAddr(0), false), seqCode()}
	for i, n := range ContractNames {
		co.Contracts = append(co.Contracts, chain.GenContract{Addr: contractAddr(i), Code: codes[i], Bal: o.CBal})
		w.add(n, contractAddr(i))
	}
	relayer := chain.NewAcct("a0")
	co.CpcWhitelist = []string{relayer.Acc().String()}
	co.Patch = func(enc params.EncodingConfig, gs chainapp.GenesisState) {
		// every contract caller grants the relayer (a0) the four native messages, so that the native twin
		// of a call made by a contract is a real Cosmos transaction: MsgExec signed by the relayer
		var grants []authz.GrantAuthorization
		for i := range ContractNames {
			for _, t := range StakingMsgTypes {
				any, err := codectypes.NewAnyWithValue(authz.NewGenericAuthorization(t))
				if err != nil {
					panic(err)
				}
				grants = append(grants, authz.GrantAuthorization{Granter: sdk.AccAddress(contractAddr(i).Bytes()).String(),
					Grantee: relayer.Acc().String(), Authorization: any})
			}
		}
		gs[authz.ModuleName] = enc.Codec.MustMarshalJSON(authz.NewGenesisState(grants))
		// the relayer pays for every call made through a contract on both routes: fund it
		var bg banktypes.GenesisState
		enc.Codec.MustUnmarshalJSON(gs[banktypes.ModuleName], &bg)
		extra := sdk.NewCoins(sdk.NewInt64Coin(chain.Denom, RelayerExtra))
		for i := range bg.Balances {
			if bg.Balances[i].Address == relayer.Acc().String() {
				bg.Balances[i].Coins = bg.Balances[i].Coins.Add(extra...)
			}
		}
		bg.Supply = bg.Supply.Add(extra...)
		gs[banktypes.ModuleName] = enc.Codec.MustMarshalJSON(&bg)
		var sg stakingtypes.GenesisState
		enc.Codec.MustUnmarshalJSON(gs[stakingtypes.ModuleName], &sg)
		sg.Params.UnbondingTime = time.Duration(o.UnbondingSecs) * time.Second
		sg.Params.MaxEntries = o.MaxEntries
		gs[stakingtypes.ModuleName] = enc.Codec.MustMarshalJSON(&sg)
	}
	c := chain.New(co)
	w.C = c
	w.Relayer = c.Accts[0]
	for i, a := range c.Accts {
		n := fmt.Sprintf("a%d", i)
		w.add(n, a.Addr)
		w.Acct[n] = a
		w.D = append(w.D, n)
	}
	w.D = append(w.D, ContractNames...)
	type vo struct{ name, op string }
	var vos []vo
	for i, v := range c.Vals {
		n := fmt.Sprintf("v%d", i)
		w.V = append(w.V, n)
		w.Addr[n] = common.BytesToAddress(v.OpAddr.Bytes())
		vos = append(vos, vo{n, v.OpAddr.String()})
	}
	sort.Slice(vos, func(i, j int) bool { return vos[i].op < vos[j].op })
	for _, x := range vos {
		w.ValOrder = append(w.ValOrder, x.name)
	}
	w.Iter = append([]string{}, w.V...)
	sort.Slice(w.Iter, func(i, j int) bool { return bytes.Compare(w.Addr[w.Iter[i]].Bytes(), w.Addr[w.Iter[j]].Bytes()) < 0 })
	w.Addr["bonded"], w.Addr["notbonded"], w.Addr["distr"], w.Addr["fc"] = chain.BondedPool, chain.NotBonded, chain.DistrModule, chain.FeeCollector
	w.Decimals = 18
	if o.Decimals != 0 {
		w.Decimals = o.Decimals
		bz, err := c.CosmosTx(w.Relayer, []sdk.Msg{&cpctypes.MsgDeployStakingContractRequest{Authority: w.Relayer.Acc().String(),
			Symbol: "STK", Decimals: o.Decimals}}, chain.CosmosTxOpts{Gas: 400000, GasPrice: o.BaseFee})
		if err != nil {
			panic(err)
		}
		bo := c.Deliver(bz)
		if bo.Panic != nil || bo.Err != nil || bo.Res.TxResults[0].Code != 0 {
			panic(fmt.Sprint("deploying the staking precompile failed: ", bo.Panic, bo.Err, bo.Res))
		}
		c.Deliver() // sweep the fee
	}
	w.MinW = 1
	min := new(big.Int).Exp(big.NewInt(10), big.NewInt(int64(w.Decimals)), nil)
	min.Quo(min, big.NewInt(1000))
	if min.IsInt64() && min.Int64() < 1<<31 {
		w.MinW = min.Int64()
	} else {
		w.MinW = 1<<31 - 1 // more than any amount of the small-magnitude genesis
	}
	return w
}

func (w *World) add(n string, a common.Address) {
	w.Names[a] = n
	w.Addr[n] = a
}

// Name of an address ("?" + hex when unknown).
func (w *World) Name(a common.Address) string {
	if n, ok := w.Names[a]; ok {
		return n
	}
	return "?" + a.Hex()
}

// ValName maps an operator address to v<i>.
func (w *World) ValName(op string) string {
	for i, v := range w.C.Vals {
		if v.OpAddr.String() == op {
			return fmt.Sprintf("v%d", i)
		}
	}
	return "?" + op
}

// IsContract tells whether d is one of the contract callers.
func IsContract(d string) bool { return len(d) > 0 && d[0] == 'c' }

var _ = sdkmath.NewInt
