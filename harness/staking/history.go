package staking

import (
	"fmt"
	"math/rand"

	"verifharness/chain"
	"verifharness/trace"
)

// RunOpts of the generator.
type RunOpts struct {
	Seed   int64
	Traces int // random histories
	Steps  int // twin steps per history
	Grids  int // forged-message grid histories
}

// Generate writes Traces random histories and Grids forged-message grids to out.
func Generate(out *trace.W, o RunOpts) map[string]int {
	stats := map[string]int{}
	for i := 0; i < o.Traces; i++ {
		r := rand.New(rand.NewSource(o.Seed*1000003 + int64(i)))
		history(out, r, fmt.Sprintf("h%d_%d", o.Seed, i), o.Steps, stats)
	}
	for i := 0; i < o.Grids; i++ {
		r := rand.New(rand.NewSource(o.Seed*7000003 + int64(i)))
		grid(out, r, fmt.Sprintf("g%d_%d", o.Seed, i), stats)
	}
	return stats
}

func worldFor(r *rand.Rand) *World {
	o := DefaultOpts()
	o.Decimals = []uint32{3, 6, 7, 6, 3, 0}[r.Intn(6)]
	o.BaseFee = []int64{2, 5, 10}[r.Intn(3)]
	return New(o)
}

func checkClean(st trace.M) {
	if st["bal"].(trace.M)["fc"].(int64) != 0 {
		panic("harness: the fee collector is not empty at the state a twin step starts from")
	}
}

func history(out *trace.W, r *rand.Rand, tid string, steps int, stats map[string]int) {
	w := worldFor(r)
	g := &Gen{R: r, W: w}
	st := w.Genesis(out, tid)
	c := w.C
	w.Views(out, c, []string{"a0", "a3", "cC"})
	for n := 0; n < steps; n++ {
		checkClean(st)
		call := g.Call(preOf(st, w))
		cont := "A"
		if r.Intn(2) == 0 {
			cont = "B"
		}
		c = w.Step(out, c, st, n, call, cont, stats)
		st = w.Accrue(out, c)
		for k := r.Intn(3); k > 1; k-- {
			st = w.Accrue(out, c)
		}
		ds := []string{call.Caller, w.D[r.Intn(len(w.D))]}
		w.Views(out, c, ds)
	}
	stats["traces"]++
}

// grid: every combination of (delegator named in the message, immediate caller, signer, chain id of the signature),
// each in {3 x 3 x 3 x 2}, for both signed-message methods, plus the tampered-field variants of the valid ones.
func grid(out *trace.W, r *rand.Rand, tid string, stats map[string]int) {
	w := worldFor(r)
	st := w.Genesis(out, tid)
	c := w.C
	n := 0
	step := func(call Call) {
		checkClean(st)
		cont := "A"
		if r.Intn(2) == 0 {
			cont = "B"
		}
		c = w.Step(out, c, st, n, call, cont, stats)
		n++
		st = w.Accrue(out, c)
	}
	sender := func(caller string) string {
		if IsContract(caller) {
			return "a0"
		}
		return caller
	}
	// stake to act upon
	for _, d := range []string{"a3", "a4", "cC"} {
		for _, v := range []string{"v0", "v1"} {
			step(Call{Caller: d, Sender: sender(d), Ops: []Op{{M: "delegate", V: v, Amt: 10 + int64(r.Intn(5))}}})
		}
	}
	mds := []string{"a3", "a4", "cC"}
	cls := []string{"a3", "a4", "cC"}
	sgs := []string{"a3", "a4", "a5"}
	type combo struct{ md, caller, signer, chain, tamper string }
	var combos []combo
	for _, md := range mds {
		for _, cl := range cls {
			for _, sg := range sgs {
				for _, ch := range []string{"ours", "other"} {
					combos = append(combos, combo{md, cl, sg, ch, "none"})
				}
			}
		}
	}
	for _, t := range []string{"amount", "validator", "sig"} {
		combos = append(combos, combo{"a3", "a3", "a3", "ours", t}, combo{"a4", "a4", "a4", "ours", t})
	}
	r.Shuffle(len(combos), func(i, j int) { combos[i], combos[j] = combos[j], combos[i] })
	for i, cb := range combos {
		var o Op
		switch (i + r.Intn(2)) % 4 {
		case 0:
			o = Op{M: "delegateByMsg", Act: "Delegate", V: "v0", Amt: 1 + int64(r.Intn(3))}
		case 1:
			o = Op{M: "delegateByMsg", Act: "Undelegate", V: "v1", Amt: 1}
		case 2:
			o = Op{M: "delegateByMsg", Act: "Redelegate", Src: "v0", V: "v2", Amt: 1}
		default:
			o = Op{M: "withdrawByMsg", V: []string{"all", "v0", "v1"}[r.Intn(3)]}
		}
		if o.M == "withdrawByMsg" && cb.tamper == "amount" {
			cb.tamper = "validator"
		}
		o.MD, o.Signer, o.Chain, o.Tamper = cb.md, cb.signer, cb.chain, cb.tamper
		step(Call{Caller: cb.caller, Sender: sender(cb.caller), Ops: []Op{o}})
		stats[fmt.Sprintf("forged:%s/%s/%s/%s/%s", cb.md, cb.caller, cb.signer, cb.chain, cb.tamper)]++
	}
	w.Views(out, c, []string{"a3", "a4", "cC"})
	stats["grids"]++
}

var _ = chain.T0
