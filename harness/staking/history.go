package staking

import (
	"fmt"
	"math/rand"

	"verifharness/chain"
	"verifharness/trace"
)

// RunOpts of the generator.
type RunOpts struct {
	Seed   int64
	Traces int // random histories
	Steps  int // twin steps per history
	Grids  int // forged-message grid histories
	Matrix int // method x via matrices
}

// Generate writes Traces random histories and Grids forged-message grids to out.
func Generate(out *trace.W, o RunOpts) map[string]int {
	stats := map[string]int{}
	for i := 0; i < o.Traces; i++ {
		r := rand.New(rand.NewSource(o.Seed*1000003 + int64(i)))
		history(out, r, fmt.Sprintf("h%d_%d", o.Seed, i), o.Steps, stats)
	}
	for i := 0; i < o.Matrix; i++ {
		r := rand.New(rand.NewSource(o.Seed*5000011 + int64(i)))
		matrix(out, r, fmt.Sprintf("m%d_%d", o.Seed, i), stats)
		for _, via := range []string{"cC", "cD", "cO", "cN", "cW"} {
			funded(out, r, fmt.Sprintf("f%d_%d_%s", o.Seed, i, via), via, stats)
		}
		seqs(out, r, fmt.Sprintf("q%d_%d", o.Seed, i), stats)
	}
	for i := 0; i < o.Grids; i++ {
		r := rand.New(rand.NewSource(o.Seed*7000003 + int64(i)))
		grid(out, r, fmt.Sprintf("g%d_%d", o.Seed, i), stats)
	}
	return stats
}

func worldFor(r *rand.Rand) *World { return worldWith(r, []uint32{3, 6, 7, 6, 3, 0}) }

func worldWith(r *rand.Rand, decimals []uint32) *World {
	o := DefaultOpts()
	o.Decimals = decimals[r.Intn(len(decimals))]
	o.BaseFee = []int64{2, 5, 10}[r.Intn(3)]
	o.UnbondingSecs = []int64{20, 20, 40}[r.Intn(3)]
	o.MaxEntries = []uint32{3, 2}[r.Intn(2)]
	return New(o)
}

// matrix: every state-changing method through every kind of caller, in an order that makes each succeed at least
// once, followed by the characteristic refusals (transitive redelegation, too many entries, foreign recipient).
func matrix(out *trace.W, r *rand.Rand, tid string, stats map[string]int) {
	w := worldFor(r)
	st := w.Genesis(out, tid)
	c := w.C
	n := 0
	step := func(caller string, ops ...Op) {
		checkClean(st)
		cont := "A"
		if r.Intn(2) == 0 {
			cont = "B"
		}
		sender := caller
		if IsContract(caller) {
			sender = "a0"
		}
		c = w.Step(out, c, st, n, Call{Caller: caller, Sender: sender, Ops: ops}, cont, stats)
		n++
		st = w.Accrue(out, c)
	}
	for _, d := range []string{"a3", "cC", "cD", "cO", "cW", "cN", "cS"} {
		x := int64(r.Intn(4))
		step(d, Op{M: "delegate", V: "v0", Amt: 10 + x})
		step(d, Op{M: "delegate", V: "v1", Amt: 8 + x})
		step(d, Op{M: "transfer", To: d, Amt: 2_000_000_000}) // claims the pending rewards, then fails: nothing may remain
		step(d, Op{M: "withdrawReward", V: "v0"})
		step(d, Op{M: "withdrawRewards"})
		step(d, Op{M: "undelegate", V: "v0", Amt: 3})
		step(d, Op{M: "redelegate", Src: "v1", V: "v2", Amt: 2 + x})
		step(d, Op{M: "redelegate", Src: "v2", V: "v0", Amt: 1}) // transitive: refused
		step(d, Op{M: "transfer", To: d, Amt: 4 + x})
		step(d, Op{M: "transfer", To: "a4", Amt: 1}) // foreign recipient: refused
		step(d, Op{M: "undelegate", V: "v0", Amt: 1})
		step(d, Op{M: "undelegate", V: "v0", Amt: 1})
		step(d, Op{M: "undelegate", V: "v0", Amt: 1}) // with 40 s unbonding time or 2 entries: refused
		w.Views(out, c, []string{d, "a0"})
	}
	// two calls in one transaction
	step("cT", Op{M: "delegate", V: "v0", Amt: 5}, Op{M: "delegate", V: "v1", Amt: 6})
	step("cT", Op{M: "undelegate", V: "v0", Amt: 2}, Op{M: "undelegate", V: "v1", Amt: 2})
	step("cT", Op{M: "withdrawReward", V: "v0"}, Op{M: "redelegate", Src: "v1", V: "v2", Amt: 1})
	step("cT", Op{M: "delegate", V: "v0", Amt: 1}, Op{M: "undelegate", V: "v0", Amt: 1})
	step("cT", Op{M: "delegate", V: "v2", Amt: 1}, Op{M: "delegate", V: "v0", Amt: 2_000_000_000}) // second fails: nothing remains
	// signed messages by the EOA
	sg := func(o Op) Op { o.MD, o.Signer, o.Chain, o.Tamper = "a3", "a3", "ours", "none"; return o }
	step("a3", sg(Op{M: "delegateByMsg", Act: "Delegate", V: "v2", Amt: 3}))
	step("a3", sg(Op{M: "delegateByMsg", Act: "Undelegate", V: "v1", Amt: 1}))
	step("a3", sg(Op{M: "delegateByMsg", Act: "Redelegate", Src: "v0", V: "v1", Amt: 1}))
	step("a3", sg(Op{M: "withdrawByMsg", V: "v0"}))
	step("a3", sg(Op{M: "withdrawByMsg", V: "all"}))
	w.Views(out, c, w.D)
	stats["matrices"]++
}

// funded: transfer() paid for by the rewards the same call claims.  A fresh world per kind of caller (no other staker
// dilutes the rewards): the contract delegates almost everything it holds (liquid 1000 -> 50), the fee-paying blocks of
// those very steps accrue rewards of 10^5..10^6 on its stake, the threshold (1 or 10^3) lets them be claimed; then
// transfer(self, a) with a on both borders: liquid+claimable+1 (refused), liquid+1 and liquid+claimable (only the claimed
// rewards pay for them), liquid, liquid-1.
func funded(out *trace.W, r *rand.Rand, tid, d string, stats map[string]int) {
	w := worldWith(r, []uint32{3, 6})
	st := w.Genesis(out, tid)
	c := w.C
	n := 0
	step := func(o Op) {
		checkClean(st)
		cont := "A"
		if r.Intn(2) == 0 {
			cont = "B"
		}
		c = w.Step(out, c, st, n, Call{Caller: d, Sender: "a0", Ops: []Op{o}}, cont, stats)
		n++
		st = w.Accrue(out, c)
	}
	step(Op{M: "delegate", V: "v0", Amt: 900})
	step(Op{M: "delegate", V: "v1", Amt: 50})
	for _, k := range []int{4, 2, 3, 1, 0} {
		p := preOf(st, w)
		claim := w.EdgeAmount(p, d, 3) - p.bal[d]
		if k == 2 && claim < 1 {
			panic("harness: no claimable reward accrued where a reward-funded transfer is to be made")
		}
		step(Op{M: "transfer", To: d, Amt: w.EdgeAmount(p, d, k)})
	}
	w.Views(out, c, []string{d, "a0"})
	stats["funded"]++
}

// seqs: messages that call the precompile several times, views between the state-changing calls (contract cQ, itself
// the delegator, holding stake and pending rewards): [view, mutate, view], [mutate, view], [mutate, mutate, view],
// [view, view, mutate] ... Every answer is kept by the contract and judged against the state at its point of the sequence.
func seqs(out *trace.W, r *rand.Rand, tid string, stats map[string]int) {
	w := worldWith(r, []uint32{3, 6})
	st := w.Genesis(out, tid)
	c := w.C
	n := 0
	q := SeqCaller
	step := func(items ...Item) {
		checkClean(st)
		cont := "A"
		if r.Intn(2) == 0 {
			cont = "B"
		}
		c = w.Step(out, c, st, n, SeqCall(items...), cont, stats)
		n++
		st = w.Accrue(out, c)
	}
	m := func(o Op) Item { return Item{Op: o} }
	v := func(view, val string) Item { return Item{View: view, D: q, V: val} }
	x := int64(r.Intn(3))
	step(m(Op{M: "delegate", V: "v0", Amt: 10 + x}))
	step(m(Op{M: "delegate", V: "v1", Amt: 8 + x}))
	step(v("rewardsOf", ""), m(Op{M: "delegate", V: "v0", Amt: 2}), v("rewardsOf", ""))
	step(v("balanceOf", ""), m(Op{M: "undelegate", V: "v0", Amt: 1}), v("balanceOf", ""))
	step(m(Op{M: "redelegate", Src: "v1", V: "v2", Amt: 1 + x}), v("rewardsOf", ""))
	step(v("rewardOf", "v0"), m(Op{M: "withdrawReward", V: "v0"}), v("rewardOf", "v0"))
	step(m(Op{M: "delegate", V: "v1", Amt: 1}), m(Op{M: "delegate", V: "v0", Amt: 1}), v("balanceOf", ""))
	step(v("delegationOf", "v0"), m(Op{M: "undelegate", V: "v0", Amt: 1}), v("totalDelegationOf", ""))
	step(v("rewardsOf", ""), m(Op{M: "transfer", To: q, Amt: 3}), v("balanceOf", ""))
	step(m(Op{M: "withdrawRewards"}), v("rewardsOf", ""))
	step(v("rewardsOf", ""), v("balanceOf", ""), m(Op{M: "delegate", V: "v0", Amt: 1}))
	step(v("balanceOf", ""), m(Op{M: "delegate", V: "v2", Amt: 1}), v("rewardsOf", ""))
	step(m(Op{M: "delegate", V: "v0", Amt: 1}), v("rewardsOf", ""), m(Op{M: "delegate", V: "v1", Amt: 1}))
	step(Item{View: "balanceOf", D: "a3"}, m(Op{M: "delegate", V: "v0", Amt: 1}), Item{View: "rewardsOf", D: "a3"})
	w.Views(out, c, []string{q, "a0"})
	stats["seqs"]++
}

func checkClean(st trace.M) {
	if st["bal"].(trace.M)["fc"].(int64) != 0 {
		panic("harness: the fee collector is not empty at the state a twin step starts from")
	}
}

func history(out *trace.W, r *rand.Rand, tid string, steps int, stats map[string]int) {
	w := worldFor(r)
	g := &Gen{R: r, W: w}
	st := w.Genesis(out, tid)
	c := w.C
	w.Views(out, c, []string{"a0", "a3", "cC"})
	for n := 0; n < steps; n++ {
		checkClean(st)
		call := g.Call(preOf(st, w))
		cont := "A"
		if r.Intn(2) == 0 {
			cont = "B"
		}
		c = w.Step(out, c, st, n, call, cont, stats)
		st = w.Accrue(out, c)
		for k := r.Intn(3); k > 1; k-- {
			st = w.Accrue(out, c)
		}
		ds := []string{call.Caller, w.D[r.Intn(len(w.D))]}
		w.Views(out, c, ds)
	}
	stats["traces"]++
}

// grid: every combination of (delegator named in the message, immediate caller, signer, chain id of the signature),
// each in {3 x 3 x 3 x 2}, for both signed-message methods, plus the tampered-field variants of the valid ones.
func grid(out *trace.W, r *rand.Rand, tid string, stats map[string]int) {
	w := worldFor(r)
	st := w.Genesis(out, tid)
	c := w.C
	n := 0
	step := func(call Call) {
		checkClean(st)
		cont := "A"
		if r.Intn(2) == 0 {
			cont = "B"
		}
		c = w.Step(out, c, st, n, call, cont, stats)
		n++
		st = w.Accrue(out, c)
	}
	sender := func(caller string) string {
		if IsContract(caller) {
			return "a0"
		}
		return caller
	}
	// stake to act upon
	for _, d := range []string{"a3", "a4", "cC"} {
		for _, v := range []string{"v0", "v1"} {
			step(Call{Caller: d, Sender: sender(d), Ops: []Op{{M: "delegate", V: v, Amt: 10 + int64(r.Intn(5))}}})
		}
	}
	mds := []string{"a3", "a4", "cC"}
	cls := []string{"a3", "a4", "cC"}
	sgs := []string{"a3", "a4", "a5"}
	type combo struct{ md, caller, signer, chain, tamper string }
	var combos []combo
	for _, md := range mds {
		for _, cl := range cls {
			for _, sg := range sgs {
				for _, ch := range []string{"ours", "other"} {
					combos = append(combos, combo{md, cl, sg, ch, "none"})
				}
			}
		}
	}
	for _, t := range []string{"amount", "validator", "sig"} {
		combos = append(combos, combo{"a3", "a3", "a3", "ours", t}, combo{"a4", "a4", "a4", "ours", t})
	}
	r.Shuffle(len(combos), func(i, j int) { combos[i], combos[j] = combos[j], combos[i] })
	for i, cb := range combos {
		var o Op
		switch (i + r.Intn(2)) % 4 {
		case 0:
			o = Op{M: "delegateByMsg", Act: "Delegate", V: "v0", Amt: 1 + int64(r.Intn(3))}
		case 1:
			o = Op{M: "delegateByMsg", Act: "Undelegate", V: "v1", Amt: 1}
		case 2:
			o = Op{M: "delegateByMsg", Act: "Redelegate", Src: "v0", V: "v2", Amt: 1}
		default:
			o = Op{M: "withdrawByMsg", V: []string{"all", "v0", "v1"}[r.Intn(3)]}
		}
		if o.M == "withdrawByMsg" && cb.tamper == "amount" {
			cb.tamper = "validator"
		}
		o.MD, o.Signer, o.Chain, o.Tamper = cb.md, cb.signer, cb.chain, cb.tamper
		step(Call{Caller: cb.caller, Sender: sender(cb.caller), Ops: []Op{o}})
		stats[fmt.Sprintf("forged:%s/%s/%s/%s/%s", cb.md, cb.caller, cb.signer, cb.chain, cb.tamper)]++
	}
	// relayed for its own transaction origin: the delegator (= signer, valid signature for our chain) itself sends
	// the transaction to a forwarder contract, which CALLs / DELEGATECALLs / CALLCODEs the method; the immediate
	// caller is the contract, so the message must be refused (the tx origin is no authority)
	for _, x := range []string{"a3", "a4"} {
		for _, via := range []string{"cC", "cD", "cO", "cN", "cW"} {
			ops := []Op{
				{M: "delegateByMsg", Act: []string{"Delegate", "Undelegate", "Redelegate"}[r.Intn(3)], Src: "v0", V: "v1", Amt: 1},
				{M: "withdrawByMsg", V: []string{"all", "v0", "v1"}[r.Intn(3)]},
			}
			for _, o := range ops {
				if o.Act == "Redelegate" {
					o.V = "v2"
				}
				if o.Act != "Redelegate" {
					o.Src = ""
				}
				o.MD, o.Signer, o.Chain, o.Tamper = x, x, "ours", "none"
				step(Call{Caller: via, Sender: x, Ops: []Op{o}})
				stats[fmt.Sprintf("relayed-for-origin:%s/%s/%s", x, via, o.M)]++
			}
		}
	}
	w.Views(out, c, []string{"a3", "a4", "cC"})
	stats["grids"]++
}

var _ = chain.T0
