package staking

import (
	"encoding/json"
	"fmt"
	"math/big"
	"sort"

	sdk "github.com/cosmos/cosmos-sdk/types"
	banktypes "github.com/cosmos/cosmos-sdk/x/bank/types"
	distrkeeper "github.com/cosmos/cosmos-sdk/x/distribution/keeper"
	distrtypes "github.com/cosmos/cosmos-sdk/x/distribution/types"
	stakingkeeper "github.com/cosmos/cosmos-sdk/x/staking/keeper"
	stakingtypes "github.com/cosmos/cosmos-sdk/x/staking/types"
	"github.com/ethereum/go-ethereum/common"
	"github.com/ethereum/go-ethereum/common/hexutil"

	cpcabi "github.com/EscanBE/evermint/v12/x/cpc/abi"
	evmtypes "github.com/EscanBE/evermint/v12/x/evm/types"

	"verifharness/chain"
	"verifharness/trace"
)

// EthCall runs a view method through the keeper's EthCall gRPC query (the backend of eth_call).
func (w *World) EthCall(c *chain.Chain, method string, args ...interface{}) ([]interface{}, error) {
	abi := cpcabi.StakingCpcInfo.ABI
	data, err := abi.Pack(method, args...)
	if err != nil {
		panic(err)
	}
	to := CPC
	from := w.Addr["a5"]
	bz, err := json.Marshal(evmtypes.TransactionArgs{From: &from, To: &to, Data: (*hexutil.Bytes)(&data)})
	if err != nil {
		panic(err)
	}
	res, err := c.App.EvmKeeper.EthCall(c.Ctx(), &evmtypes.EthCallRequest{Args: bz, GasCap: 5_000_000})
	if err != nil {
		return nil, err
	}
	if res.VmError != "" {
		return nil, fmt.Errorf("vm error: %s", res.VmError)
	}
	return abi.Unpack(method, res.Ret)
}

func (w *World) callNum(c *chain.Chain, method string, args ...interface{}) interface{} {
	out, err := w.EthCall(c, method, args...)
	if err != nil {
		return int64(-1) // no view returns a negative number: an error never equals a native value
	}
	switch x := out[0].(type) {
	case *big.Int:
		return trace.I(x)
	case uint8:
		return int64(x)
	}
	panic(fmt.Sprintf("unexpected return type %T of %s", out[0], method))
}

// Views logs, side by side, what the precompile's view methods return through eth_call and what the native
// gRPC queries of x/staking, x/distribution and x/bank return for the same committed state.
func (w *World) Views(out *trace.W, c *chain.Chain, ds []string) {
	ctx := c.Ctx()
	sq := stakingkeeper.NewQuerier(c.App.StakingKeeper)
	dq := distrkeeper.NewQuerier(c.App.DistrKeeper)
	qs := []interface{}{}
	add := func(m, d, v string, cpc, nat interface{}) {
		t := "num"
		switch cpc.(type) {
		case string:
			t = "str"
		case []string:
			t = "set"
		}
		qs = append(qs, trace.M{"m": m, "d": d, "v": v, "t": t, "cpc": cpc, "nat": nat})
	}
	for _, d := range ds {
		acc := w.AccOf(d)
		eth := w.Addr[d]
		var natVals []string
		natTotal := int64(0)
		dd, err := sq.DelegatorDelegations(ctx, &stakingtypes.QueryDelegatorDelegationsRequest{DelegatorAddr: acc.String()})
		if err != nil {
			panic(err)
		}
		natDel := map[string]int64{}
		for _, r := range dd.DelegationResponses {
			v := w.ValName(r.Delegation.ValidatorAddress)
			natDel[v] = trace.I(r.Balance.Amount.BigInt())
			natTotal += natDel[v]
			natVals = append(natVals, v)
		}
		sort.Strings(natVals)
		for _, v := range w.V {
			// single-delegation query (absent delegation: NotFound => 0)
			one := int64(0)
			if r, err := sq.Delegation(ctx, &stakingtypes.QueryDelegationRequest{DelegatorAddr: acc.String(), ValidatorAddr: w.valStr(v)}); err == nil {
				one = trace.I(r.DelegationResponse.Balance.Amount.BigInt())
			}
			if one != natDel[v] {
				panic("native queries disagree with each other")
			}
			add("delegationOf", d, v, w.callNum(c, "delegationOf", eth, w.Addr[v]), one)
			var natRew interface{} = int64(0)
			if r, err := dq.DelegationRewards(ctx, &distrtypes.QueryDelegationRewardsRequest{DelegatorAddress: acc.String(), ValidatorAddress: w.valStr(v)}); err == nil {
				natRew = trace.I(r.Rewards.AmountOf(chain.Denom).TruncateInt().BigInt())
			}
			add("rewardOf", d, v, w.callNum(c, "rewardOf", eth, w.Addr[v]), natRew)
		}
		add("totalDelegationOf", d, "-", w.callNum(c, "totalDelegationOf", eth), natTotal)
		tr, err := dq.DelegationTotalRewards(ctx, &distrtypes.QueryDelegationTotalRewardsRequest{DelegatorAddress: acc.String()})
		if err != nil {
			panic(err)
		}
		natRewards := trace.I(tr.Total.AmountOf(chain.Denom).TruncateInt().BigInt())
		add("rewardsOf", d, "-", w.callNum(c, "rewardsOf", eth), natRewards)
		br, err := c.App.BankKeeper.Balance(ctx, &banktypes.QueryBalanceRequest{Address: acc.String(), Denom: chain.Denom})
		if err != nil {
			panic(err)
		}
		add("balanceOf", d, "-", w.callNum(c, "balanceOf", eth), trace.I(br.Balance.Amount.BigInt())+natRewards)
		// delegatedValidators: set of validators
		var cpcVals interface{} = []string{"error"}
		if o, err := w.EthCall(c, "delegatedValidators", eth); err == nil {
			var vs []string
			for _, a := range o[0].([]common.Address) {
				vs = append(vs, w.valNameEth(a))
			}
			sort.Strings(vs)
			if vs == nil {
				vs = []string{}
			}
			cpcVals = vs
		}
		if natVals == nil {
			natVals = []string{}
		}
		add("delegatedValidators", d, "-", cpcVals, natVals)
	}
	// metadata
	meta := c.App.CPCKeeper.GetCustomPrecompiledContractMeta(ctx, CPC)
	name, sym := "error", "error"
	if o, err := w.EthCall(c, "name"); err == nil {
		name = o[0].(string)
	}
	if o, err := w.EthCall(c, "symbol"); err == nil {
		sym = o[0].(string)
	}
	var tm struct {
		Symbol   string `json:"symbol"`
		Decimals int64  `json:"decimals"`
	}
	if err := json.Unmarshal([]byte(meta.TypedMeta), &tm); err != nil {
		panic(err)
	}
	add("name", "-", "-", name, meta.Name)
	add("symbol", "-", "-", sym, tm.Symbol)
	add("decimals", "-", "-", w.callNum(c, "decimals"), tm.Decimals)
	out.Emit(trace.M{"ev": "Views", "q": qs})
}

var _ = sdk.AccAddress{}
