package staking

import (
	"encoding/binary"
	"math/big"

	banktypes "github.com/cosmos/cosmos-sdk/x/bank/types"
	distrkeeper "github.com/cosmos/cosmos-sdk/x/distribution/keeper"
	distrtypes "github.com/cosmos/cosmos-sdk/x/distribution/types"
	stakingkeeper "github.com/cosmos/cosmos-sdk/x/staking/keeper"
	stakingtypes "github.com/cosmos/cosmos-sdk/x/staking/types"
	"github.com/ethereum/go-ethereum/common"

	cpcabi "github.com/EscanBE/evermint/v12/x/cpc/abi"

	"verifharness/asm"
	"verifharness/chain"
	"verifharness/trace"
)

// SeqCaller is the contract that makes up to three calls to the staking precompile in ONE message and keeps
// every answer: calldata = L1 | L2 | L3 (32 bytes each, 0 = no call) | payload1 | payload2 | payload3.
// Call i is a CALL with payload i; it is required to succeed (else the whole message reverts) and the first
// 32 bytes it returns are stored in storage slot 100+i.  The contract itself is the delegator.
const SeqCaller = "cQ"

// seqCode assembles the contract.
func seqCode() []byte {
	var b []byte
	type fix struct {
		pos   int
		label string
	}
	var fixes []fix
	labels := map[string]int{}
	op := func(o ...byte) { b = append(b, o...) }
	jumpTo := func(l string) { // PUSH2 <label>
		op(0x61, 0, 0)
		fixes = append(fixes, fix{len(b) - 2, l})
	}
	label := func(l string) { labels[l] = len(b); op(asm.JUMPDEST) }
	push2 := func(v int) { op(0x61, byte(v>>8), byte(v)) }
	// mem[0..) = calldata[96..)
	op(asm.PUSH1, 96, asm.CALLDATASIZE, 0x03 /*SUB*/, asm.PUSH1, 96, asm.PUSH0, asm.CALLDATACOPY)
	for i := 0; i < 3; i++ {
		skip := []string{"skip1", "skip2", "skip3"}[i]
		op(asm.PUSH1, byte(32*i), asm.CALLDATALOAD) // L
		op(asm.DUP1, asm.ISZERO)
		jumpTo(skip)
		op(asm.JUMPI)
		op(asm.PUSH0)
		push2(0x400)
		op(asm.MSTORE) // clear the answer word
		op(asm.PUSH1, 32)
		push2(0x400)
		op(asm.DUP1 + 2) // DUP3: L
		switch i {       // argsOffset = L1 + .. + L(i)
		case 0:
			op(asm.PUSH0)
		case 1:
			op(asm.PUSH0, asm.CALLDATALOAD)
		case 2:
			op(asm.PUSH0, asm.CALLDATALOAD, asm.PUSH1, 32, asm.CALLDATALOAD, asm.ADD)
		}
		op(asm.PUSH0) // value
		op(0x73)      // PUSH20
		op(CPC.Bytes()...)
		op(asm.GAS, asm.CALL, asm.ISZERO)
		jumpTo("fail")
		op(asm.JUMPI)
		push2(0x400)
		op(asm.MLOAD, asm.PUSH1, byte(101+i), asm.SSTORE)
		label(skip)
		op(asm.POP)
	}
	op(asm.STOP)
	label("fail")
	op(asm.PUSH0, asm.PUSH0, asm.REVERT)
	for _, f := range fixes {
		p := labels[f.label]
		b[f.pos], b[f.pos+1] = byte(p>>8), byte(p)
	}
	return b
}

// Item is one call of a message of SeqCaller: a state-changing op (View == "") or a view.
type Item struct {
	Op   Op
	View string // rewardsOf | balanceOf | rewardOf | delegationOf | totalDelegationOf
	D, V string // arguments of the view
}

func (w *World) viewCalldata(it Item) []byte {
	abi := cpcabi.StakingCpcInfo.ABI
	var bz []byte
	var err error
	switch it.View {
	case "rewardsOf", "balanceOf", "totalDelegationOf":
		bz, err = abi.Pack(it.View, w.Addr[it.D])
	case "rewardOf", "delegationOf":
		bz, err = abi.Pack(it.View, w.Addr[it.D], w.Addr[it.V])
	default:
		panic("unknown view " + it.View)
	}
	if err != nil {
		panic(err)
	}
	return bz
}

// SeqCalldata packs the message.
func (w *World) SeqCalldata(items []Item) []byte {
	if len(items) < 1 || len(items) > 3 {
		panic("a message of cQ has 1..3 calls")
	}
	head := make([]byte, 96)
	var body []byte
	for i, it := range items {
		var p []byte
		if it.View != "" {
			p = w.viewCalldata(it)
		} else {
			p = w.Calldata(it.Op)
		}
		binary.BigEndian.PutUint64(head[32*i+24:], uint64(len(p)))
		body = append(body, p...)
	}
	return append(head, body...)
}

// NativeView is the native gRPC query a view method corresponds to, on the committed state of c.
func (w *World) NativeView(c *chain.Chain, it Item) int64 {
	ctx := c.Ctx()
	acc := w.AccOf(it.D)
	sq := stakingkeeper.NewQuerier(c.App.StakingKeeper)
	dq := distrkeeper.NewQuerier(c.App.DistrKeeper)
	total := func() int64 {
		r, err := dq.DelegationTotalRewards(ctx, &distrtypes.QueryDelegationTotalRewardsRequest{DelegatorAddress: acc.String()})
		if err != nil {
			panic(err)
		}
		return trace.I(r.Total.AmountOf(chain.Denom).TruncateInt().BigInt())
	}
	switch it.View {
	case "rewardsOf":
		return total()
	case "balanceOf":
		br, err := c.App.BankKeeper.Balance(ctx, &banktypes.QueryBalanceRequest{Address: acc.String(), Denom: chain.Denom})
		if err != nil {
			panic(err)
		}
		return trace.I(br.Balance.Amount.BigInt()) + total()
	case "rewardOf":
		r, err := dq.DelegationRewards(ctx, &distrtypes.QueryDelegationRewardsRequest{DelegatorAddress: acc.String(), ValidatorAddress: w.valStr(it.V)})
		if err != nil {
			return 0
		}
		return trace.I(r.Rewards.AmountOf(chain.Denom).TruncateInt().BigInt())
	case "delegationOf":
		r, err := sq.Delegation(ctx, &stakingtypes.QueryDelegationRequest{DelegatorAddr: acc.String(), ValidatorAddr: w.valStr(it.V)})
		if err != nil {
			return 0
		}
		return trace.I(r.DelegationResponse.Balance.Amount.BigInt())
	case "totalDelegationOf":
		r, err := sq.DelegatorDelegations(ctx, &stakingtypes.QueryDelegatorDelegationsRequest{DelegatorAddr: acc.String()})
		if err != nil {
			panic(err)
		}
		t := int64(0)
		for _, x := range r.DelegationResponses {
			t += trace.I(x.Balance.Amount.BigInt())
		}
		return t
	}
	panic("unknown view " + it.View)
}

// seqAnswer reads the answer of call i (0-based) of the last message of cQ from its storage.
func (w *World) seqAnswer(c *chain.Chain, i int) int64 {
	h := c.App.EvmKeeper.GetState(c.Ctx(), w.Addr[SeqCaller], common.BigToHash(big.NewInt(int64(101+i))))
	return trace.I(h.Big())
}
