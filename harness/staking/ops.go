package staking

import (
	"encoding/binary"
	"fmt"
	"math/big"
	"strings"

	sdkmath "cosmossdk.io/math"
	sdk "github.com/cosmos/cosmos-sdk/types"
	"github.com/cosmos/cosmos-sdk/x/authz"
	distrtypes "github.com/cosmos/cosmos-sdk/x/distribution/types"
	stakingtypes "github.com/cosmos/cosmos-sdk/x/staking/types"
	"github.com/ethereum/go-ethereum/common"
	cmath "github.com/ethereum/go-ethereum/common/math"
	ethtypes "github.com/ethereum/go-ethereum/core/types"
	"github.com/ethereum/go-ethereum/signer/core/apitypes"

	"github.com/EscanBE/evermint/v12/constants"
	cpcabi "github.com/EscanBE/evermint/v12/x/cpc/abi"

	"verifharness/chain"
	"verifharness/trace"
)

// Op is one call of a state-changing method of the staking precompile.
//
//	M       delegate | undelegate | redelegate | withdrawReward | withdrawRewards | transfer |
//	        delegateByMsg | withdrawByMsg
//	V       validator (destination validator of a redelegation; "all" for withdrawByMsg from every validator)
//	Src     source validator of a redelegation
//	Amt     amount
//	To      recipient of transfer()
//	Act     action of delegateByMsg: Delegate | Undelegate | Redelegate
//	MD      the delegator named in the signed message
//	Signer  whose key signed the message
//	Chain   "ours" | "other": the chain id of the EIP-712 domain the signature was made for
//	Tamper  "none" | "amount" | "validator" | "sig": a field changed after signing
type Op struct {
	M, V, Src, To, Act, MD, Signer, Chain, Tamper string
	Amt                                           int64
}

// J is the trace form.
func (o Op) J() trace.M {
	f := func(s string) string {
		if s == "" {
			return "-"
		}
		return s
	}
	return trace.M{"m": o.M, "v": f(o.V), "src": f(o.Src), "to": f(o.To), "act": f(o.Act), "md": f(o.MD), "signer": f(o.Signer),
		"chain": f(o.Chain), "tamper": f(o.Tamper), "amt": o.Amt}
}

// ghost validator: a well-formed operator address no validator has
var ghostVal = common.BytesToAddress([]byte("verif-no-such-validator"))

func (w *World) valEth(v string) common.Address {
	if v == "vx" {
		return ghostVal
	}
	return w.Addr[v]
}

func (w *World) valStr(v string) string {
	return sdk.ValAddress(w.valEth(v).Bytes()).String()
}

func (w *World) accEth(d string) common.Address {
	if d == "ax" {
		return common.BytesToAddress([]byte("verif-nobody"))
	}
	return w.Addr[d]
}

// Calldata packs the call of op.
func (w *World) Calldata(o Op) []byte {
	abi := cpcabi.StakingCpcInfo.ABI
	var bz []byte
	var err error
	amt := big.NewInt(o.Amt)
	switch o.M {
	case "delegate":
		bz, err = abi.Pack("delegate", w.valEth(o.V), amt)
	case "undelegate":
		bz, err = abi.Pack("undelegate", w.valEth(o.V), amt)
	case "redelegate":
		bz, err = abi.Pack("redelegate", w.valEth(o.Src), w.valEth(o.V), amt)
	case "withdrawReward":
		bz, err = abi.Pack("withdrawReward", w.valEth(o.V))
	case "withdrawRewards":
		bz, err = abi.Pack("withdrawRewards")
	case "transfer":
		bz, err = abi.Pack("transfer", w.accEth(o.To), amt)
	case "delegateByMsg":
		old := "-"
		if o.Act == "Redelegate" {
			old = w.valStr(o.Src)
		}
		msg := cpcabi.StakingMessage{Action: o.Act, Delegator: w.accEth(o.MD), Validator: w.valStr(o.V), Amount: amt, Denom: chain.Denom, OldValidator: old}
		r, s, v := w.sign712(msg, o)
		switch o.Tamper {
		case "amount":
			msg.Amount = new(big.Int).Add(amt, big.NewInt(1))
		case "validator":
			msg.Validator = w.valStr(otherVal(o.V))
		}
		bz, err = abi.Pack("delegateByActionMessage", msg, r, s, v)
	case "withdrawByMsg":
		from := "all"
		if o.V != "all" {
			from = w.valStr(o.V)
		}
		msg := cpcabi.WithdrawRewardMessage{Delegator: w.accEth(o.MD), FromValidator: from}
		r, s, v := w.sign712(msg, o)
		if o.Tamper == "validator" {
			if o.V == "all" {
				msg.FromValidator = w.valStr("v0")
			} else {
				msg.FromValidator = w.valStr(otherVal(o.V))
			}
		}
		bz, err = abi.Pack("withdrawRewardsByMessage", msg, r, s, v)
	default:
		panic("unknown method " + o.M)
	}
	if err != nil {
		panic(err)
	}
	return bz
}

func otherVal(v string) string {
	if v == "v0" {
		return "v1"
	}
	return "v0"
}

// typedData is the harness' own statement of the EIP-712 documents wallets sign for the staking precompile
// (domain: application name, version 1.0.0, chain id, the precompile as verifying contract, salt = its last byte);
// deliberately not built with the repository's helpers, so that a change of the domain on the chain side shows up.
func typedData(msg interface{}, chainID *big.Int) apitypes.TypedData {
	td := apitypes.TypedData{
		Types: apitypes.Types{"EIP712Domain": []apitypes.Type{{Name: "name", Type: "string"}, {Name: "version", Type: "string"},
			{Name: "chainId", Type: "uint256"}, {Name: "verifyingContract", Type: "address"}, {Name: "salt", Type: "string"}}},
		Domain: apitypes.TypedDataDomain{Name: strings.ToUpper(constants.ApplicationName), Version: "1.0.0", ChainId: (*cmath.HexOrDecimal256)(chainID),
			VerifyingContract: CPC.Hex(), Salt: fmt.Sprintf("0x%x", CPC.Bytes()[19])},
	}
	switch m := msg.(type) {
	case cpcabi.StakingMessage:
		td.PrimaryType = "StakingMessage"
		td.Types["StakingMessage"] = []apitypes.Type{{Name: "action", Type: "string"}, {Name: "delegator", Type: "address"}, {Name: "validator", Type: "string"},
			{Name: "amount", Type: "uint256"}, {Name: "denom", Type: "string"}, {Name: "oldValidator", Type: "string"}}
		td.Message = apitypes.TypedDataMessage{"action": m.Action, "delegator": m.Delegator.String(), "validator": m.Validator,
			"amount": (*cmath.HexOrDecimal256)(m.Amount), "denom": m.Denom, "oldValidator": m.OldValidator}
	case cpcabi.WithdrawRewardMessage:
		td.PrimaryType = "WithdrawRewardMessage"
		td.Types["WithdrawRewardMessage"] = []apitypes.Type{{Name: "delegator", Type: "address"}, {Name: "fromValidator", Type: "string"}}
		td.Message = apitypes.TypedDataMessage{"delegator": m.Delegator.String(), "fromValidator": m.FromValidator}
	default:
		panic("unknown typed message")
	}
	return td
}

// sign712 signs the typed message the way wallets do (EIP-712 hash: keccak(0x1901 | domain separator | struct hash)).
func (w *World) sign712(msg interface{}, o Op) (r, s [32]byte, v uint8) {
	chainID := big.NewInt(chain.EIP155)
	if o.Chain == "other" {
		chainID = big.NewInt(chain.EIP155 + 1)
	}
	hash, _, err := apitypes.TypedDataAndHash(typedData(msg, chainID))
	if err != nil {
		panic(err)
	}
	signer, ok := w.Acct[o.Signer]
	if !ok {
		panic("signer without key: " + o.Signer)
	}
	sig, err := signer.Priv.Sign(hash)
	if err != nil {
		panic(err)
	}
	copy(r[:], sig[:32])
	copy(s[:], sig[32:64])
	v = sig[64]
	if o.Tamper == "sig" {
		r[7] ^= 0x20
	}
	return
}

// NativeMsg is one native message of the expansion of an op.
type NativeMsg struct {
	K, D, V, Src string // K: delegate | undelegate | redelegate | withdraw
	Amt          int64
}

// J is the trace form.
func (m NativeMsg) J() trace.M {
	src := m.Src
	if src == "" {
		src = "-"
	}
	return trace.M{"k": m.K, "d": m.D, "v": m.V, "src": src, "amt": m.Amt}
}

// Sdk builds the sdk message.
func (w *World) Sdk(m NativeMsg) sdk.Msg {
	d := w.AccOf(m.D).String()
	coin := sdk.NewCoin(chain.Denom, sdkmath.NewInt(m.Amt))
	switch m.K {
	case "delegate":
		return stakingtypes.NewMsgDelegate(d, w.valStr(m.V), coin)
	case "undelegate":
		return stakingtypes.NewMsgUndelegate(d, w.valStr(m.V), coin)
	case "redelegate":
		return stakingtypes.NewMsgBeginRedelegate(d, w.valStr(m.Src), w.valStr(m.V), coin)
	case "withdraw":
		return distrtypes.NewMsgWithdrawDelegatorReward(d, w.valStr(m.V))
	}
	panic("unknown native message " + m.K)
}

// st is the projected pre-state in Go form (only what the expansion needs).
type pre struct {
	deleg, rew map[string]map[string]int64
	vtok       map[string]int64
	bal        map[string]int64
}

func preOf(p trace.M, w *World) pre {
	x := pre{map[string]map[string]int64{}, map[string]map[string]int64{}, map[string]int64{}, map[string]int64{}}
	for _, d := range w.D {
		x.deleg[d], x.rew[d] = map[string]int64{}, map[string]int64{}
		x.bal[d] = p["bal"].(trace.M)[d].(int64)
		for _, v := range w.V {
			x.deleg[d][v] = p["deleg"].(trace.M)[d].(trace.M)[v].(int64)
			x.rew[d][v] = p["rew"].(trace.M)[d].(trace.M)[v].(int64)
		}
	}
	for _, v := range w.V {
		x.vtok[v] = p["vtok"].(trace.M)[v].(int64)
	}
	return x
}

// withdrawAll: the validators withdrawRewards() takes rewards from.
func (w *World) withdrawAll(p pre, d string) (ms []NativeMsg) {
	for _, v := range w.Iter {
		if p.deleg[d][v] > 0 && p.rew[d][v] >= w.MinW {
			ms = append(ms, NativeMsg{K: "withdraw", D: d, V: v})
		}
	}
	return
}

// pickValidator is the harness' own reading of the documented rule of transfer():
// not delegated anywhere: the mid-power validator; delegated to one: that one; to many: the lowest power one
// (power = tokens, ties by operator address string).
func (w *World) pickValidator(p pre, d string) string {
	less := func(a, b string) bool {
		if p.vtok[a] != p.vtok[b] {
			return p.vtok[a] < p.vtok[b]
		}
		return w.ordOf(a) < w.ordOf(b)
	}
	sorted := func(vs []string) []string {
		out := append([]string{}, vs...)
		for i := range out {
			for j := i + 1; j < len(out); j++ {
				if less(out[j], out[i]) {
					out[i], out[j] = out[j], out[i]
				}
			}
		}
		return out
	}
	var mine []string
	for _, v := range w.V {
		if p.deleg[d][v] > 0 {
			mine = append(mine, v)
		}
	}
	switch len(mine) {
	case 0:
		all := sorted(w.V)
		return all[len(all)/2]
	case 1:
		return mine[0]
	}
	return sorted(mine)[0]
}

func (w *World) ordOf(v string) int {
	for i, x := range w.ValOrder {
		if x == v {
			return i
		}
	}
	return -1
}

// Expand is the native message sequence corresponding to a call of op by caller (nil: no native message
// corresponds, the call must change nothing).
func (w *World) Expand(p pre, caller string, o Op) []NativeMsg {
	switch o.M {
	case "delegate", "undelegate":
		if o.Amt <= 0 {
			return nil
		}
		return []NativeMsg{{K: o.M, D: caller, V: o.V, Amt: o.Amt}}
	case "redelegate":
		if o.Amt <= 0 {
			return nil
		}
		return []NativeMsg{{K: "redelegate", D: caller, V: o.V, Src: o.Src, Amt: o.Amt}}
	case "withdrawReward":
		return []NativeMsg{{K: "withdraw", D: caller, V: o.V}}
	case "withdrawRewards":
		return w.withdrawAll(p, caller)
	case "transfer":
		if o.Amt <= 0 || o.To != caller {
			return nil
		}
		ms := w.withdrawAll(p, caller)
		// the method's own precondition: the balance after claiming covers the amount
		after := p.bal[caller]
		for _, m := range ms {
			after += p.rew[caller][m.V]
		}
		if after < o.Amt {
			return nil
		}
		return append(ms, NativeMsg{K: "delegate", D: caller, V: w.pickValidator(p, caller), Amt: o.Amt})
	case "delegateByMsg":
		if !(o.MD == caller && o.Signer == caller && o.Chain == "ours" && o.Tamper == "none") || o.Amt <= 0 {
			return nil
		}
		switch o.Act {
		case "Delegate":
			return []NativeMsg{{K: "delegate", D: caller, V: o.V, Amt: o.Amt}}
		case "Undelegate":
			return []NativeMsg{{K: "undelegate", D: caller, V: o.V, Amt: o.Amt}}
		case "Redelegate":
			return []NativeMsg{{K: "redelegate", D: caller, V: o.V, Src: o.Src, Amt: o.Amt}}
		}
		return nil
	case "withdrawByMsg":
		if !(o.MD == caller && o.Signer == caller && o.Chain == "ours" && o.Tamper == "none") {
			return nil
		}
		if o.V == "all" {
			return w.withdrawAll(p, caller)
		}
		return []NativeMsg{{K: "withdraw", D: caller, V: o.V}}
	}
	panic("unknown method " + o.M)
}

// NativeTx builds the Cosmos transaction of the native route: the messages signed by their delegator, or, for a
// contract delegator, wrapped in authz.MsgExec signed by the relayer the contract granted at genesis.
func (w *World) NativeTx(c *chain.Chain, ms []NativeMsg, price int64) (bz []byte, signer string, fee int64) {
	var msgs []sdk.Msg
	for _, m := range ms {
		msgs = append(msgs, w.Sdk(m))
	}
	d := ms[0].D
	acct := w.Acct[d]
	signer = d
	if IsContract(d) {
		acct = w.Relayer
		signer = "a0"
		exec := authz.NewMsgExec(w.Relayer.Acc(), msgs)
		msgs = []sdk.Msg{&exec}
	}
	gas := uint64(300000 + 200000*len(ms))
	fee = int64(gas) * price
	bz, err := c.CosmosTx(acct, msgs, chain.CosmosTxOpts{Gas: gas, GasPrice: price})
	if err != nil {
		panic(err)
	}
	return bz, signer, fee
}

// ViaOf maps the immediate caller to the kind of call it makes.
func ViaOf(caller string) string {
	switch caller {
	case "cC":
		return "call"
	case "cD":
		return "delegatecall"
	case "cO":
		return "callcode"
	case "cS":
		return "staticcall"
	case "cW":
		return "swallow"
	case "cT":
		return "twice"
	case "cN":
		return "nested"
	case SeqCaller:
		return "seq"
	}
	return "direct"
}

// EthTx builds the Ethereum transaction of the cpc route: sender -> precompile (direct) or sender -> contract
// caller -> precompile.
func (w *World) EthTx(c *chain.Chain, sender, caller string, ops []Op, items []Item, gas uint64, price int64) []byte {
	to := CPC
	var data []byte
	switch {
	case caller == SeqCaller:
		data = w.SeqCalldata(items)
		to = w.Addr[caller]
	case caller == "cT":
		if len(ops) != 2 {
			panic("cT makes two calls")
		}
		p1, p2 := w.Calldata(ops[0]), w.Calldata(ops[1])
		l := make([]byte, 32)
		binary.BigEndian.PutUint64(l[24:], uint64(len(p1)))
		data = append(append(l, p1...), p2...)
		to = w.Addr[caller]
	case IsContract(caller):
		data = w.Calldata(ops[0])
		to = w.Addr[caller]
	default:
		if sender != caller {
			panic("a direct call is made by its sender")
		}
		data = w.Calldata(ops[0])
	}
	a := w.Acct[sender]
	nonce := c.Seq(a.Addr)
	return c.EthTx(a, &ethtypes.LegacyTx{Nonce: nonce, GasPrice: big.NewInt(price), Gas: gas, To: &to, Value: big.NewInt(0), Data: data})
}

var _ = fmt.Sprint
