package drivers

import (
	"fmt"
	"math/big"
	"math/rand"
	"time"

	sdkmath "cosmossdk.io/math"
	sdk "github.com/cosmos/cosmos-sdk/types"
	authtypes "github.com/cosmos/cosmos-sdk/x/auth/types"
	consensustypes "github.com/cosmos/cosmos-sdk/x/consensus/types"
	govtypes "github.com/cosmos/cosmos-sdk/x/gov/types"
	govv1 "github.com/cosmos/cosmos-sdk/x/gov/types/v1"

	chainapp "github.com/EscanBE/evermint/v12/app"
	"github.com/EscanBE/evermint/v12/app/params"
	evmtypes "github.com/EscanBE/evermint/v12/x/evm/types"
	feemarkettypes "github.com/EscanBE/evermint/v12/x/feemarket/types"
	ethtypes "github.com/ethereum/go-ethereum/core/types"

	"verifharness/chain"
	"verifharness/trace"
)

// GovDeposit is the deposit of the fee-market proposals (= the minimum deposit of GovPatch).
const GovDeposit = int64(1)

// GovPatch makes governance fast and cheap: 1 wei deposit, 10 s voting period (= 2 blocks).
func GovPatch(enc params.EncodingConfig, gs chainapp.GenesisState) {
	g := govv1.DefaultGenesisState()
	vp := 2 * time.Duration(chain.BlockSecs) * time.Second
	evp := time.Duration(chain.BlockSecs) * time.Second
	g.Params.MinDeposit = sdk.NewCoins(sdk.NewInt64Coin(chain.Denom, GovDeposit))
	g.Params.ExpeditedMinDeposit = sdk.NewCoins(sdk.NewInt64Coin(chain.Denom, 2*GovDeposit))
	g.Params.MaxDepositPeriod = &vp
	g.Params.VotingPeriod = &vp
	g.Params.ExpeditedVotingPeriod = &evp
	g.Params.MinInitialDepositRatio = sdkmath.LegacyZeroDec().String()
	gs[govtypes.ModuleName] = enc.Codec.MustMarshalJSON(g)
}

// GovPlan is one x/feemarket MsgUpdateParams proposal taken through real governance in the middle of a history:
// submitted (with deposit) by the validator operator a0 in block At, voted yes by a0 in block At+1; the voting
// period ends with block At+2, whose gov end-blocker executes the message and refunds the deposit.
type GovPlan struct {
	At      int    // block index of the submission
	MinGP   string // proposed min_gas_price (decimal string)
	BaseFee int64  // proposed base_fee (stored verbatim by MsgUpdateParams)
	// Evm: the proposal also carries an x/evm MsgUpdateParams that sets enable_create / enable_call to these values
	Evm                      bool
	EnableCreate, EnableCall bool
	// Cons: the proposal also carries an x/consensus MsgUpdateParams with this block max gas; consensus parameters are
	// read once at the start of a block, so the new limit (and gas target) only counts from the next block on
	Cons   bool
	MaxGas int64
	// EthMsg: the proposal also carries a MsgEthereumTx (signer field = gov authority, payload = a transaction signed
	// by a5 that cannot be applied: it moves more than a5 owns). The message service router hands it to x/evm without
	// any ante handler; it fails, so the proposal fails as a whole - and the block must still end.
	EthMsg bool
	// Executed: Ethereum transactions (wrapped bytes) that were executed successfully so far; when there is one at the
	// time of submission, every second EthMsg proposal carries a byte-identical copy of it instead (its nonce is spent:
	// the message must fail with "nonce too low" - nothing else stands between a signed transaction and a second execution
	// on this route, which has no ante handler).
	Executed [][]byte
	Replay   bool   // the proposal carries such a copy
	ID       uint64 // proposal id once submitted
	State    string // "", "submitted", "voted", "done"
}

// NewGovPlan draws a plan, or nil.
func NewGovPlan(r *rand.Rand, blocks int) *GovPlan {
	if blocks < 5 || r.Intn(3) != 0 {
		return nil
	}
	p := &GovPlan{At: r.Intn(blocks - 4)} // executes with block At+2; at least two blocks follow
	switch r.Intn(4) {
	case 0:
		p.MinGP = "0"
	case 1:
		p.MinGP = fmt.Sprintf("%d.5", 1+r.Intn(6))
	default:
		p.MinGP = fmt.Sprintf("%d.25", 12+r.Intn(30)) // above any base fee the history has seen
	}
	p.BaseFee = pick(r, int64(0), int64(1), int64(3+r.Intn(12)), int64(20+r.Intn(60)))
	if r.Intn(3) == 0 {
		p.Cons = true
		p.MaxGas = pick(r, int64(-1), int64(350000), int64(600000), int64(2000000))
	}
	if r.Intn(2) == 0 {
		p.EthMsg = true
	}
	if r.Intn(2) == 0 {
		p.Evm = true
		p.EnableCreate, p.EnableCall = r.Intn(3) != 0, r.Intn(3) != 0
	}
	return p
}

// govTx builds a0's governance transaction for block b, if the plan has one there: (bytes, trace record) or nil.
// In the trace it is a Cosmos-lane transaction: the submission moves the deposit from a0 to the gov module account
// ("gv"), the vote moves nothing; both pay fees and bump a0's sequence.
func (w *World) govTx(p *GovPlan, b int, nextNonce map[string]uint64, baseFee int64) ([]byte, trace.M) {
	if p == nil {
		return nil, nil
	}
	c := w.C
	a0 := c.Accts[0]
	var msg sdk.Msg
	var amount int64
	to := "a0"
	switch {
	case b == p.At && p.State == "":
		gov := authtypes.NewModuleAddress(govtypes.ModuleName).String()
		upd := &feemarkettypes.MsgUpdateParams{Authority: gov, Params: feemarkettypes.Params{
			BaseFee: sdkmath.NewInt(p.BaseFee), MinGasPrice: sdkmath.LegacyMustNewDecFromStr(p.MinGP)}}
		msgs := []sdk.Msg{upd}
		if p.Evm {
			ep := c.App.EvmKeeper.GetParams(c.Ctx())
			ep.EnableCreate, ep.EnableCall = p.EnableCreate, p.EnableCall
			msgs = append(msgs, &evmtypes.MsgUpdateParams{Authority: gov, Params: ep})
		}
		if p.Cons {
			cp := chain.ConsParams(p.MaxGas)
			msgs = append(msgs, &consensustypes.MsgUpdateParams{Authority: gov, Block: cp.Block, Evidence: cp.Evidence, Validator: cp.Validator})
		}
		if p.EthMsg {
			a5 := c.Accts[5]
			to := c.Accts[1].Addr
			stx := chain.SignEth(a5, &ethtypes.LegacyTx{Nonce: c.Seq(a5.Addr), GasPrice: big.NewInt(baseFee + 50), Gas: 50000, To: &to,
				Value: big.NewInt(2_000_000_000)}, chain.EIP155)
			if len(p.Executed) > 0 {
				if old := ethOf(c, p.Executed[len(p.Executed)-1]); old != nil {
					stx = old
					p.Replay = true
				}
			}
			msgs = append(msgs, chain.EthMsg(stx, chain.GovModule))
		}
		sub, err := govv1.NewMsgSubmitProposal(msgs, sdk.NewCoins(sdk.NewInt64Coin(chain.Denom, GovDeposit)), a0.Acc().String(), "", "fee market params", "update", false)
		if err != nil {
			panic(err)
		}
		msg, amount, to = sub, GovDeposit, "gv"
	case b == p.At+1 && p.State == "submitted":
		msg = govv1.NewMsgVote(a0.Acc(), p.ID, govv1.OptionYes, "")
	default:
		return nil, nil
	}
	seq := c.Seq(a0.Addr)
	gas := uint64(300000)
	price := maxI(baseFee, w.MinGP()) + 1
	bz, err := c.CosmosTx(a0, []sdk.Msg{msg}, chain.CosmosTxOpts{Gas: gas, GasPrice: price, Seq: &seq})
	if err != nil {
		panic(err)
	}
	nextNonce["a0"] = seq + 1
	return bz, trace.M{"from": "a0", "seqno": trace.U(seq), "gas": trace.U(gas), "fee": int64(gas) * price, "to": to, "amount": amount, "sigok": true, "tip": int64(-1)}
}

// govAfterBlock advances the plan after block b was delivered (code = result code of the plan's transaction in that
// block, -1 if none) and returns the "gov" record of the block's End event when the gov end-blocker closed the proposal.
func (w *World) govAfterBlock(p *GovPlan, b int, code int64, data []byte) trace.M {
	if p == nil {
		return nil
	}
	c := w.C
	switch {
	case b == p.At && p.State == "":
		if code != 0 {
			p.State = "done" // the submission did not get in: no proposal
			return nil
		}
		var td sdk.TxMsgData
		if err := td.Unmarshal(data); err != nil || len(td.MsgResponses) != 1 {
			panic("harness: MsgSubmitProposal response unreadable")
		}
		var sr govv1.MsgSubmitProposalResponse
		if err := sr.Unmarshal(td.MsgResponses[0].Value); err != nil {
			panic(err)
		}
		p.ID, p.State = sr.ProposalId, "submitted"
		return nil
	case p.State == "submitted" || p.State == "voted":
		if b == p.At+1 {
			p.State = "voted"
		}
		prop, err := c.App.GovKeeper.Proposals.Get(c.Ctx(), p.ID)
		if err != nil {
			panic(fmt.Errorf("harness: proposal %d missing: %w", p.ID, err))
		}
		switch prop.Status {
		case govv1.StatusPassed:
			p.State = "done"
			ep := c.App.EvmKeeper.GetParams(c.Ctx())
			ec, el := ep.EnableCreate, ep.EnableCall // unchanged unless the proposal says otherwise
			if p.Evm {
				ec, el = p.EnableCreate, p.EnableCall
			}
			return trace.M{"passed": true, "minGP": floorDec(p.MinGP), "baseFee": p.BaseFee, "to": "a0", "refund": GovDeposit,
				"evm": p.Evm, "enableCreate": ec, "enableCall": el, "cons": p.Cons, "maxGas": p.MaxGas, "ethMsg": p.ethMsgKind(), "reason": ""}
		case govv1.StatusRejected, govv1.StatusFailed:
			p.State = "done"
			return trace.M{"passed": false, "minGP": int64(0), "baseFee": int64(0), "to": "a0", "refund": GovDeposit,
				"evm": false, "enableCreate": true, "enableCall": true, "cons": false, "maxGas": int64(0), "ethMsg": p.ethMsgKind(), "reason": tailStr(prop.FailedReason, 260)}
		}
	}
	return nil
}

// MinGP is the integer part of the minimum gas price configured right now (committed state).
func (w *World) MinGP() int64 {
	return w.C.App.FeeMarketKeeper.GetParams(w.C.Ctx()).MinGasPrice.TruncateInt().Int64()
}

// ethOf extracts the signed Ethereum transaction from wrapped transaction bytes (nil if it is not one).
func ethOf(c *chain.Chain, bz []byte) *ethtypes.Transaction {
	tx, err := c.Enc.TxConfig.TxDecoder()(bz)
	if err != nil || len(tx.GetMsgs()) != 1 {
		return nil
	}
	m, ok := tx.GetMsgs()[0].(*evmtypes.MsgEthereumTx)
	if !ok {
		return nil
	}
	return m.AsTransaction()
}

func (p *GovPlan) ethMsgKind() string {
	switch {
	case p.Replay:
		return "executed-before"
	case p.EthMsg:
		return "unaffordable"
	}
	return "none"
}

func tailStr(s string, n int) string {
	if len(s) > n {
		return "..." + s[len(s)-n:]
	}
	return s
}
