// Package drivers holds the history generators: each drives the real application and
// records what happened as a trace for one TLA+ trace specification.
package drivers

import (
	sdkmath "cosmossdk.io/math"
	evertypes "github.com/EscanBE/evermint/v12/types"
	codectypes "github.com/cosmos/cosmos-sdk/codec/types"

	"encoding/hex"
	"fmt"
	"math/big"
	"math/rand"
	"sort"
	"strconv"
	"strings"

	abci "github.com/cometbft/cometbft/abci/types"
	sdk "github.com/cosmos/cosmos-sdk/types"
	authtypes "github.com/cosmos/cosmos-sdk/x/auth/types"
	vestexported "github.com/cosmos/cosmos-sdk/x/auth/vesting/exported"
	vestingtypes "github.com/cosmos/cosmos-sdk/x/auth/vesting/types"
	banktypes "github.com/cosmos/cosmos-sdk/x/bank/types"
	"github.com/ethereum/go-ethereum/common"
	"github.com/ethereum/go-ethereum/common/hexutil"
	"github.com/ethereum/go-ethereum/core"
	ethtypes "github.com/ethereum/go-ethereum/core/types"
	"github.com/ethereum/go-ethereum/crypto"

	evmtypes "github.com/EscanBE/evermint/v12/x/evm/types"

	"verifharness/chain"
	"verifharness/obs"
	"verifharness/prog"
	"verifharness/trace"
)

// World bundles a chain with the naming universe and program table of one trace.
type World struct {
	NContracts int // contracts c0.. of the menu
	C          *chain.Chain
	U          *prog.Universe
	T          *prog.Table
	Tid        string
	R          *rand.Rand
}

func contractAddr(i int) common.Address {
	return common.HexToAddress(fmt.Sprintf("0x00000000000000000000000000000000c0de%04x", i))
}

func freshAddr(i int) common.Address {
	return common.HexToAddress(fmt.Sprintf("0x00000000000000000000000000000000f4e5%04x", i))
}

// op constructors
func sstore(slot string, v int64) prog.Op { return prog.Op{Op: "SSTORE", Slot: slot, Val: v} }
func logN(n int) prog.Op                  { return prog.Op{Op: "LOG", N: n} }
func call(kind, to, sel string, value int64) prog.Op {
	return prog.Op{Op: "CALL", Kind: kind, To: to, Sel: sel, Value: value}
}
func callGas(kind, to, sel string, value int64, gas uint64) prog.Op {
	return prog.Op{Op: "CALL", Kind: kind, To: to, Sel: sel, Value: value, Gas: gas}
}

var (
	opRevert  = prog.Op{Op: "REVERT"}
	opInvalid = prog.Op{Op: "INVALID"}
)

func selfdestruct(to string) prog.Op { return prog.Op{Op: "SELFDESTRUCT", To: to} }

// cpcTransfer / cpcBurn: calls into the ERC-20 precompile of the EVM denomination ("pc" in the universe).
func cpcTransfer(u *prog.Universe, to string, amt int64) prog.Op {
	data := append([]byte{0xa9, 0x05, 0x9c, 0xbb}, common.LeftPadBytes(u.A(to).Bytes(), 32)...)
	data = append(data, common.LeftPadBytes(big.NewInt(amt).Bytes(), 32)...)
	return prog.Op{Op: "CPC", Kind: "CALL", To: "pc", Method: "transfer", Args: []interface{}{to, amt}, Data: data}
}

func cpcBurn(amt int64) prog.Op {
	data := append([]byte{0x42, 0x96, 0x6c, 0x68}, common.LeftPadBytes(big.NewInt(amt).Bytes(), 32)...)
	return prog.Op{Op: "CPC", Kind: "CALL", To: "pc", Method: "burn", Args: []interface{}{amt}, Data: data}
}

// StdMenu defines the standard contracts of the EthTx family of drivers.
// Returns genesis contracts; names c0..c6.
func StdMenu(u *prog.Universe, t *prog.Table, pfx string) []chain.GenContract {
	for i := 0; i < 9; i++ {
		u.Add(fmt.Sprintf("c%d", i), contractAddr(i))
	}
	// constructor + runtime for creations
	t.Define(pfx+"rt", map[string][]prog.Op{"e0": {}, "e1": {sstore("s1", 2), logN(1)}}, u)
	t.DefineInit(pfx+"i0", []prog.Op{sstore("s0", 1), logN(1)}, u)
	t.DefineInit(pfx+"i1", []prog.Op{sstore("s0", 1), opRevert}, u)
	t.DefineInit(pfx+"i2", []prog.Op{}, u)
	t.DefineInit(pfx+"i3", []prog.Op{logN(1)}, u)                             // used with empty runtime code
	t.DefineInit(pfx+"i4", []prog.Op{sstore("s0", 1), selfdestruct("a2")}, u) // constructor self-destructs
	t.DefineInit(pfx+"i5", []prog.Op{sstore("s0", 1), {Op: "REVERT", N: 1}}, u) // constructor ends in revert("") (well-formed empty reason)

	cr := func(salt uint64, init string, value int64, addrName string) prog.Op {
		return prog.Op{Op: "CREATE2", Init: pfx + init, Runtime: pfx + "rt", Value: value, Salt: salt, Addr: addrName}
	}
	// CREATE2 addresses created by c5
	k0 := cr(1, "i0", 0, "k0")
	k1 := cr(2, "i1", 0, "k1")
	k2 := cr(3, "i2", 2, "k2")
	u.Add("k0", t.Create2Addr(contractAddr(5), k0))
	u.Add("k1", t.Create2Addr(contractAddr(5), k1))
	u.Add("k2", t.Create2Addr(contractAddr(5), k2))

	menu := []map[string][]prog.Op{
		// c0: storage
		{
			"e0": {},
			"e1": {sstore("s0", 1), sstore("s1", 1), sstore("s2", 1), sstore("s3", 1)},
			"e2": {sstore("s0", 0), sstore("s1", 0), sstore("s2", 0), sstore("s3", 0)},
			"e3": {sstore("s0", 0), sstore("s4", 5), logN(2), sstore("s4", 6), sstore("s0", 1)},
			"e4": {sstore("s0", 2), opRevert},
			"e5": {sstore("s1", 3), opInvalid},
			"e6": {sstore("s5", 0), sstore("s6", 0), sstore("s7", 0), sstore("s8", 0), sstore("s9", 0), sstore("s5", 1), sstore("s6", 0)},
		},
		// c1: logger
		{
			"e0": {logN(0)},
			"e1": {logN(1), logN(2), logN(3)},
			"e2": {logN(1), call("CALL", "c0", "e1", 0), logN(2)},
			"e3": {logN(4), call("CALL", "c0", "e4", 0), logN(1)},
		},
		// c2: forwarder / call kinds
		{
			"e0": {call("CALL", "a1", "e0", 3)},
			"e1": {call("CALL", "c0", "e4", 0), sstore("s0", 1)},
			"e2": {call("STATICCALL", "c0", "e1", 0), sstore("s1", 1)},
			"e3": {call("DELEGATECALL", "c0", "e1", 0), logN(1)},
			"e4": {call("CALLCODE", "c0", "e3", 0)},
			"e5": {call("CALL", "x0", "e0", 0), sstore("s2", 1)},
			"e6": {call("CALL", "x1", "e0", 2)},
			"e7": {call("CALL", "c1", "e2", 0), call("CALL", "c1", "e3", 0), opRevert},
			"e8": {call("STATICCALL", "c1", "e1", 0), call("STATICCALL", "c3", "e1", 0), call("CALL", "a2", "e0", 1000000000)},
			"e9": {callGas("CALL", "c0", "e1", 0, 30000), sstore("s3", 1)},
		},
		// c3: self-destruct
		{
			"e0": {},
			"e1": {selfdestruct("a2")},
			"e2": {selfdestruct("c3")},
			"e3": {call("CALL", "a3", "e0", 6)},
			"e4": {sstore("s0", 1), selfdestruct("x2")},
			"e5": {selfdestruct("distr")},
		},
		// c4: orchestrator
		{
			"e0":  {call("CALL", "c3", "e1", 4), call("CALL", "c3", "e0", 6), call("CALL", "c3", "e1", 0), call("CALL", "c3", "e3", 0)},
			"e1":  {call("CALL", "c3", "e4", 1), call("CALL", "c3", "e0", 2)},
			"e2":  {call("CALL", "m0", "e0", 0)},
			"e3":  {call("CALL", "v0", "e0", 0)},
			"e4":  {call("CALL", "c3", "e2", 3), opRevert},
			"e5":  {call("CALL", "z0", "e0", 0), sstore("s0", 1)},
			"e6":  {call("STATICCALL", "z0", "e0", 0)},
			"e7":  {call("CALL", "v1", "e0", 0)},
			"e8":  {call("CALL", "fc", "e0", 1)},
			"e9":  {sstore("s1", 1), call("CALL", "c3", "e5", 2)},
			"e10": {call("CALL", "c3", "e1", 1), call("CALL", "c7", "e1", 1), call("CALL", "c7", "e0", 3)},
			"e11": {call("CALL", "c7", "e2", 0), call("CALL", "c3", "e2", 2)},
			"e12": {call("CALL", "vw", "e0", 0), sstore("s2", 1)},
		},
		// c5: creator
		{
			"e0": {k0},
			"e1": {k1, sstore("s0", 1)},
			"e2": {k2},
			"e3": {k0, call("CALL", "k0", "e1", 0)},
			"e4": {k0, opRevert},
		},
		// c6: deep nesting of reverts
		{
			"e0": {sstore("s0", 1), call("CALL", "c2", "e1", 0), call("CALL", "c2", "e7", 0), sstore("s1", 2)},
			"e1": {call("CALL", "c6", "e0", 0), opInvalid},
			"e2": {call("DELEGATECALL", "c2", "e3", 0), call("CALL", "c0", "e2", 0)},
		},
		// c7: a second self-destructing contract holding another denomination (two destroyed accounts with leftovers in one tx)
		{
			"e0": {},
			"e1": {selfdestruct("a3")},
			"e2": {selfdestruct("c7")},
		},
	}
	if _, ok := u.ByName["pc"]; ok {
		// c8: user of the ERC-20 precompile of the EVM denomination (bank moves and burns inside call frames)
		menu = append(menu, map[string][]prog.Op{
			"e0": {cpcTransfer(u, "a1", 5)},
			"e1": {cpcTransfer(u, "a2", 3), opRevert},
			"e2": {call("CALL", "c8", "e0", 0), opRevert},
			"e3": {cpcBurn(4), logN(1)},
			"e4": {cpcTransfer(u, "a1", 1000000000), sstore("s0", 1)},
			"e5": {call("CALL", "c8", "e1", 0), cpcTransfer(u, "x1", 2), cpcBurn(1)},
			"e6": {sstore("s1", 1), call("CALL", "c8", "e3", 0), opInvalid},
			"e7": {cpcTransfer(u, "c8", 7), cpcTransfer(u, "a3", 0)},
		})
	}
	var out []chain.GenContract
	for i, entries := range menu {
		code := t.Define(fmt.Sprintf("%sc%d", pfx, i), entries, u)
		gc := chain.GenContract{Addr: contractAddr(i), Code: code, Bal: 100, Storage: map[common.Hash]common.Hash{}}
		if i == 0 {
			for s := 0; s < 10; s++ {
				gc.Storage[common.BigToHash(big.NewInt(int64(s)))] = common.BigToHash(big.NewInt(1))
			}
		}
		if i == 3 {
			gc.Bal2 = 50
		}
		if i == 7 {
			gc.Bal2 = 30
		}
		out = append(out, gc)
	}
	return out
}

// Project reads the committed state of every address of the universe.
func (w *World) Project() trace.M { return w.ProjectAt(w.C.Ctx()) }

// ProjectAt reads the state of every address of the universe from the given context.
func (w *World) ProjectAt(ctx sdk.Context) trace.M {
	c := w.C
	accts := trace.M{}
	for _, name := range w.U.Names() {
		a := w.U.A(name)
		acc := c.App.AccountKeeper.GetAccount(ctx, a.Bytes())
		var bal, bal2 int64
		for _, coin := range c.App.BankKeeper.GetAllBalances(ctx, a.Bytes()) {
			if coin.Denom == chain.Denom {
				bal = trace.I(coin.Amount.BigInt())
			} else {
				bal2 += trace.I(coin.Amount.BigInt())
			}
		}
		m := trace.M{"bal": bal, "bal2": bal2, "seq": int64(0), "ex": acc != nil, "kind": "base", "vend": int64(0)}
		if acc != nil {
			m["seq"] = trace.U(acc.GetSequence())
			if _, ok := acc.(sdk.ModuleAccountI); ok {
				m["kind"] = "module"
			} else if v, ok := acc.(vestexported.VestingAccount); ok {
				m["kind"] = "vesting"
				m["vend"] = v.GetEndTime() - chain.T0 // times in traces are relative to T0
			}
		}
		if name == "evm" {
			// the EVM module account is materialised lazily by the first mint; it exists by definition
			m["ex"], m["kind"] = true, "module"
		}
		code := c.App.EvmKeeper.GetCode(ctx, c.App.EvmKeeper.GetCodeHash(ctx, a.Bytes()))
		m["code"] = w.T.IDOfCode(code)
		stor := trace.M{}
		c.App.EvmKeeper.ForEachStorage(ctx, a, func(k, v common.Hash) bool {
			// a cleared slot stays in the store as 32 zero bytes; GetState cannot tell it from an absent one
			if v != (common.Hash{}) {
				stor[prog.SlotName(k)] = trace.I(v.Big())
			}
			return true
		})
		m["stor"] = stor
		accts[name] = m
	}
	return trace.M{
		"accts":   accts,
		"supply":  trace.I(c.App.BankKeeper.GetSupply(ctx, chain.Denom).Amount.BigInt()),
		"supply2": trace.I(c.App.BankKeeper.GetSupply(ctx, chain.Denom2).Amount.BigInt()),
		"baseFee": trace.I(c.App.FeeMarketKeeper.GetBaseFee(ctx).BigInt()),
	}
}

// EthSpec is everything the driver decides about one Ethereum transaction.
type EthSpec struct {
	From     *chain.Acct
	FromName string
	Signer   *chain.Acct
	Nonce    uint64
	Type     int
	Gas      uint64
	Price    int64 // gas price or fee cap
	Tip      int64
	Value    int64
	To       string // name or "create"
	Sel      string
	Init     string // create: constructor id
	Runtime  string
	NewAddr  string
	Chain    string // ok | other | none
	Tamper   string // none | payload | sig
	Shape    string // ok | memo | timeout | ...
	Class    string // informational
	AL       bool   // access list with one entry
}

// BuildEth builds the tx bytes, the trace description and the intrinsic gas.
func (w *World) BuildEth(s EthSpec) (bz []byte, t trace.M, intrinsic uint64, hash common.Hash) {
	var to *common.Address
	var data []byte
	create := s.To == "create"
	if create {
		data = w.T.InitCode(s.Init, s.Runtime)
	} else {
		a := w.U.A(s.To)
		to = &a
		data = prog.SelData(s.Sel)
	}
	var al ethtypes.AccessList
	if s.AL {
		al = ethtypes.AccessList{{Address: contractAddr(0), StorageKeys: []common.Hash{common.BigToHash(big.NewInt(0))}}}
	}
	var txd ethtypes.TxData
	switch s.Type {
	case 0:
		txd = &ethtypes.LegacyTx{Nonce: s.Nonce, GasPrice: big.NewInt(s.Price), Gas: s.Gas, To: to, Value: big.NewInt(s.Value), Data: data}
	case 1:
		txd = &ethtypes.AccessListTx{ChainID: big.NewInt(chain.EIP155), Nonce: s.Nonce, GasPrice: big.NewInt(s.Price), Gas: s.Gas, To: to, Value: big.NewInt(s.Value), Data: data, AccessList: al}
	default:
		txd = &ethtypes.DynamicFeeTx{ChainID: big.NewInt(chain.EIP155), Nonce: s.Nonce, GasFeeCap: big.NewInt(s.Price), GasTipCap: big.NewInt(s.Tip), Gas: s.Gas, To: to, Value: big.NewInt(s.Value), Data: data, AccessList: al}
	}
	chainID := int64(chain.EIP155)
	switch s.Chain {
	case "other":
		chainID = chain.EIP155 + 1
		switch x := txd.(type) {
		case *ethtypes.AccessListTx:
			x.ChainID = big.NewInt(chainID)
		case *ethtypes.DynamicFeeTx:
			x.ChainID = big.NewInt(chainID)
		}
	case "none":
		if s.Type != 0 {
			panic("unprotected signatures exist for legacy txs only")
		}
		chainID = 0
	}
	stx := chain.SignEth(s.Signer, txd, chainID)
	if s.Tamper == "payload" {
		// re-assemble the tx with another value but the old signature
		v, r, sg := stx.RawSignatureValues()
		switch x := txd.(type) {
		case *ethtypes.LegacyTx:
			y := *x
			y.Value = new(big.Int).Add(x.Value, big.NewInt(1))
			y.V, y.R, y.S = v, r, sg
			stx = ethtypes.NewTx(&y)
		case *ethtypes.AccessListTx:
			y := *x
			y.Value = new(big.Int).Add(x.Value, big.NewInt(1))
			y.V, y.R, y.S = v, r, sg
			stx = ethtypes.NewTx(&y)
		case *ethtypes.DynamicFeeTx:
			y := *x
			y.Value = new(big.Int).Add(x.Value, big.NewInt(1))
			y.V, y.R, y.S = v, r, sg
			stx = ethtypes.NewTx(&y)
		}
	} else if s.Tamper == "sig" {
		v, r, sg := stx.RawSignatureValues()
		r2 := new(big.Int).Xor(r, big.NewInt(0x10000))
		switch x := txd.(type) {
		case *ethtypes.LegacyTx:
			y := *x
			y.V, y.R, y.S = v, r2, sg
			stx = ethtypes.NewTx(&y)
		case *ethtypes.AccessListTx:
			y := *x
			y.V, y.R, y.S = v, r2, sg
			stx = ethtypes.NewTx(&y)
		case *ethtypes.DynamicFeeTx:
			y := *x
			y.V, y.R, y.S = v, r2, sg
			stx = ethtypes.NewTx(&y)
		}
	}
	msg := chain.EthMsg(stx, s.From.Addr)
	bz = w.C.WrapEth(msg)
	ig, err := core.IntrinsicGas(data, al, create, true, true)
	if err != nil {
		panic(err)
	}
	t = trace.M{
		"from": s.FromName, "signer": w.U.Name(s.Signer.Addr), "nonce": trace.U(s.Nonce), "type": s.Type, "gas": trace.U(s.Gas),
		"price": s.Price, "tip": s.Tip, "value": s.Value, "to": s.To, "sel": selOr(s.Sel), "chain": s.Chain, "tamper": s.Tamper,
		"shape": s.Shape, "init": s.Init, "runtime": s.Runtime, "newaddr": s.NewAddr,
	}
	return bz, t, ig, stx.Hash()
}

func selOr(s string) string {
	if s == "" {
		return "e0"
	}
	return s
}

// frameOut converts an observed frame tree to the outcome tree of the specification.
func frameOut(f *obs.Frame) trace.M {
	st := f.Err
	switch {
	case st == "":
		st = "ok"
	case strings.HasPrefix(st, "other:"):
		st = "other"
	}
	ch := []interface{}{}
	for _, c := range f.Children {
		if c.Type == "SELFDESTRUCT" {
			continue // the tracer is pinged for SELFDESTRUCT, but it is not a call frame
		}
		ch = append(ch, frameOut(c))
	}
	return trace.M{"st": st, "ch": ch}
}

func bloomBits(b ethtypes.Bloom) []int {
	var out []int
	for i := 0; i < 2048; i++ {
		// bit i counted from the least significant bit of the big-endian 256-byte bloom
		if b[ethtypes.BloomByteLength-1-i/8]&(1<<(uint(i)%8)) != 0 {
			out = append(out, i)
		}
	}
	if out == nil {
		out = []int{}
	}
	return out
}

func attr(ev abci.Event, key string) (string, bool) {
	for _, a := range ev.Attributes {
		if a.Key == key {
			return a.Value, true
		}
	}
	return "", false
}

// ObserveEth turns a tx result (+ recorded frames) into the o and r records of the trace.
func (w *World) ObserveEth(res *abci.ExecTxResult, ex *obs.Exec, intrinsic uint64) (o trace.M, r trace.M) {
	o = trace.M{"intrinsic": trace.U(intrinsic), "gasUsedRes": clampGas(res.GasUsed), "gasWanted": clampGas(res.GasWanted),
		"gasUsed": clampGas(res.GasUsed), "gasBeforeRefund": int64(0), "root": trace.M{"st": "notrun", "ch": []interface{}{}}, "logBits": []interface{}{}, "bloomBits": []int{}}
	r = trace.M{"code": codeOf(res), "log": trunc(res.Log, 160), "gasUsed": clampGas(res.GasUsed), "hasEthEvent": false, "ethEventTxIdx": int64(-1), "hasReceipt": false}
	if ex != nil && ex.Root != nil {
		o["root"] = frameOut(ex.Root)
		o["gasBeforeRefund"] = trace.U(intrinsic + ex.Root.GasUsed)
	}
	for _, ev := range res.Events {
		switch ev.Type {
		case evmtypes.EventTypeEthereumTx:
			r["hasEthEvent"] = true
			if v, ok := attr(ev, evmtypes.AttributeKeyTxIndex); ok {
				n, _ := strconv.ParseInt(v, 10, 64)
				r["ethEventTxIdx"] = n
			}
		case evmtypes.EventTypeTxReceipt:
			r["hasReceipt"] = true
			rc := trace.M{}
			mar, _ := attr(ev, evmtypes.AttributeKeyReceiptMarshalled)
			receipt := &ethtypes.Receipt{}
			if err := receipt.UnmarshalBinary(hexutil.MustDecode(mar)); err != nil {
				panic(err)
			}
			rc["status"] = trace.U(receipt.Status)
			rc["cum"] = trace.U(receipt.CumulativeGasUsed)
			gu, _ := attr(ev, evmtypes.AttributeKeyReceiptGasUsed)
			n, _ := strconv.ParseInt(gu, 10, 64)
			rc["gasUsed"] = n
			o["gasUsed"] = n
			ti, _ := attr(ev, evmtypes.AttributeKeyReceiptTxIndex)
			n, _ = strconv.ParseInt(ti, 10, 64)
			rc["txIdx"] = n
			li, has := attr(ev, evmtypes.AttributeKeyReceiptStartLogIndex)
			rc["logIdx"] = int64(-1)
			if has {
				n, _ = strconv.ParseInt(li, 10, 64)
				rc["logIdx"] = n
			}
			ep, _ := attr(ev, evmtypes.AttributeKeyReceiptEffectiveGasPrice)
			n, _ = strconv.ParseInt(ep, 10, 64)
			rc["effPrice"] = n
			ca, _ := attr(ev, evmtypes.AttributeKeyReceiptContractAddress)
			rc["contract"] = "none"
			if ca != "" {
				rc["contract"] = w.U.Name(common.HexToAddress(ca))
			}
			_, hasErr := attr(ev, evmtypes.AttributeKeyReceiptVmError)
			rc["hasVmError"] = hasErr
			logs := []interface{}{}
			logBits := []interface{}{}
			for _, lg := range receipt.Logs {
				logs = append(logs, trace.M{"addr": w.U.Name(lg.Address), "n": len(lg.Topics)})
				logBits = append(logBits, bloomBits(ethtypes.BytesToBloom(ethtypes.LogsBloom([]*ethtypes.Log{lg}))))
			}
			rc["logs"] = logs
			o["logBits"] = logBits
			o["bloomBits"] = bloomBits(receipt.Bloom)
			r["receipt"] = rc
		}
	}
	return o, r
}

func trunc(s string, n int) string {
	if len(s) > n {
		return s[:n]
	}
	return s
}

func codeOf(res *abci.ExecTxResult) int64 {
	if res.Code == 0 {
		return 0
	}
	return 1
}

func clampGas(g int64) int64 {
	if g < 0 || g >= trace.Limit {
		return trace.Limit - 1
	}
	return g
}

// BlockBloomBits extracts the block bloom event of FinalizeBlock.
func BlockBloomBits(res *abci.ResponseFinalizeBlock) []int {
	for _, ev := range res.Events {
		if ev.Type == evmtypes.EventTypeBlockBloom {
			v, _ := attr(ev, evmtypes.AttributeKeyEthereumBloom)
			if v == "" {
				return []int{}
			}
			bz, err := hex.DecodeString(v)
			if err != nil {
				panic(err)
			}
			return bloomBits(ethtypes.BytesToBloom(bz))
		}
	}
	return []int{}
}

// EthTxOpts configures the EthTx driver.
type EthTxOpts struct {
	Seed   int64
	Traces int
	Blocks int
}

// vesting and module names used by the menu
func extraAccounts() ([]authtypes.GenesisAccount, []banktypes.Balance, map[string]common.Address) {
	names := map[string]common.Address{}
	var accs []authtypes.GenesisAccount
	var bals []banktypes.Balance
	return accs, bals, names
}

// GenEthTx generates opts.Traces histories and writes them to w.
func GenEthTx(out *trace.W, tbl *prog.Table, opts EthTxOpts) (stats map[string]int) {
	obs.Install()
	stats = map[string]int{}
	for ti := 0; ti < opts.Traces; ti++ {
		r := rand.New(rand.NewSource(opts.Seed*1000003 + int64(ti)))
		genOneEthTx(out, tbl, r, fmt.Sprintf("t%d_%d", opts.Seed, ti), opts.Blocks, stats)
	}
	return stats
}

func sortedKeys(m map[string][]prog.Op) []string {
	var ks []string
	for k := range m {
		ks = append(ks, k)
	}
	sort.Strings(ks)
	return ks
}

// NewEthWorld builds the chain, universe and contract menu of one EthTx history (genesis chosen by r).
func NewEthWorld(tbl *prog.Table, r *rand.Rand, tid string, tweak func(*chain.Opts)) (*World, chain.Opts) {
	u := prog.NewUniverse()
	o := chain.DefaultOpts()
	o.NAccts = 6
	switch r.Intn(4) {
	case 0:
		o.MaxGas = int64(150000 + r.Intn(4)*100000)
	default:
		o.MaxGas = -1
	}
	o.BaseFee = int64(5 + r.Intn(10))
	if r.Intn(4) == 0 {
		o.MinGasPrice = fmt.Sprintf("%d.5", 3+r.Intn(12))
	}
	// governance may switch contract creation / message calls off
	switch r.Intn(12) {
	case 0:
		o.EvmDisableCreate = true
	case 1:
		o.EvmDisableCall = true
	}
	for i := 0; i < o.NAccts; i++ {
		u.Add(fmt.Sprintf("a%d", i), chain.NewAcct(fmt.Sprintf("a%d", i)).Addr)
	}
	u.Add("fc", chain.FeeCollector)
	u.Add("evm", chain.EvmModule)
	u.Add("distr", chain.DistrModule)
	u.Add("m0", chain.ModuleAddr("mint"))
	u.Add("gv", chain.GovModule)
	for i := 0; i < 3; i++ {
		u.Add(fmt.Sprintf("x%d", i), freshAddr(i))
	}
	// z0: an existing, completely empty base account ; v0: unexpired vesting (empty) ; v1: expired vesting (empty)
	u.Add("z0", freshAddr(100))
	u.Add("v0", freshAddr(101))
	u.Add("v1", freshAddr(102))
	// vw: not an account in the standard genesis; the replica driver (C01) puts a vesting account here whose end time is
	// seconds after the wall-clock instant of generation (decades before any header time)
	u.Add("vw", freshAddr(103))
	o.ExtraAccts = append(o.ExtraAccts, authtypes.NewBaseAccount(freshAddr(100).Bytes(), nil, 0, 0))
	o.ExtraAccts = append(o.ExtraAccts, newVesting(freshAddr(101), chain.T0+1_000_000))
	o.ExtraAccts = append(o.ExtraAccts, newVesting(freshAddr(102), chain.T0+7))
	if tweak != nil {
		tweak(&o)
	}
	if r.Intn(3) == 0 {
		o.CpcDeployErc20Native = true
	}
	if o.CpcDeployErc20Native {
		u.Add("pc", chain.NativeErc20Addr())
	}
	pfx := tid + "_"
	o.Contracts = append(StdMenu(u, tbl, pfx), o.Contracts...)
	if r.Intn(2) == 0 {
		// CREATE2 targets of c5 that already are accounts holding coins of the other denomination when the contract
		// is created there (StateDB.CreateAccount destroys what is there and carries ALL balances over)
		for _, n := range []string{"k0", "k2"} {
			if r.Intn(2) == 0 {
				a := u.A(n)
				o.ExtraAccts = append(o.ExtraAccts, authtypes.NewBaseAccount(a.Bytes(), nil, 0, 0))
				o.ExtraBals = append(o.ExtraBals, banktypes.Balance{Address: sdk.AccAddress(a.Bytes()).String(),
					Coins: sdk.NewCoins(sdk.NewInt64Coin(chain.Denom2, int64(3+r.Intn(9))))})
			}
		}
	}
	c := chain.New(o)
	return &World{C: c, U: u, T: tbl, Tid: tid, R: r, NContracts: len(o.Contracts) - nExtra(o.Contracts)}, o
}

// nExtra counts contracts that are not part of the menu (added by a caller's tweak).
func nExtra(cs []chain.GenContract) int {
	n := 0
	for _, c := range cs {
		if string(c.Addr.Bytes()[:18]) != string(contractAddr(0).Bytes()[:18]) {
			n++
		}
	}
	return n
}

// GenEthSpec / GenCosmosSend are the transaction generators of the EthTx histories, for other drivers.
func (w *World) GenEthSpec(nextNonce map[string]uint64, baseFee int64, created *int) EthSpec {
	return w.genEthSpec(nextNonce, baseFee, created)
}

// GenCosmosSend see GenEthSpec.
func (w *World) GenCosmosSend(nextNonce map[string]uint64, baseFee int64) ([]byte, trace.M) {
	return w.genCosmosSend(nextNonce, baseFee)
}

func genOneEthTx(out *trace.W, tbl *prog.Table, r *rand.Rand, tid string, blocks int, stats map[string]int) {
	plan := NewGovPlan(r, blocks)
	// a third of the histories start with traffic in block 1, the only block in which the configured minimum gas price can
	// be above the base fee (the fee market lifts the base fee when the block ends)
	first := r.Intn(3) == 0
	w, o := NewEthWorld(tbl, r, tid, func(o *chain.Opts) {
		o.SkipFirstBlock = first
		if first && r.Intn(2) == 0 {
			o.MinGasPrice = fmt.Sprintf("%d.5", o.BaseFee+1+int64(r.Intn(6)))
		}
		if plan != nil {
			o.Patch = GovPatch
			if o.MaxGas >= 0 && o.MaxGas < 350000 {
				o.MaxGas = 350000 // room for the governance transactions (300000 gas each)
			}
		}
	})
	c := w.C
	var twin *chain.Chain
	if first {
		// the chain itself is unreadable before its first commit: an instance that ran an EMPTY block 1 stands in for it while
		// block 1 is put together (an empty block changes nothing the transactions or the projection depend on, except that
		// its fee market step already lifted the base fee)
		twin = c.Replica(func(o *chain.Opts) { o.SkipFirstBlock = false })
		w.C = twin
		stats["histories-with-traffic-in-block-1"]++
	}

	g := w.Project()
	if first {
		g["baseFee"] = o.BaseFee
	}
	g["ev"] = "Genesis"
	g["tid"] = tid
	g["minGP"] = floorDec(o.MinGasPrice)
	g["enableCreate"], g["enableCall"] = !o.EvmDisableCreate, !o.EvmDisableCall
	g["maxGas"] = o.MaxGas
	out.Emit(g)

	created := 0
	type sentTx struct {
		bz        []byte
		t         trace.M
		intrinsic uint64
	}
	var sent []sentTx
	for b := 0; b < blocks; b++ {
		n := r.Intn(5)
		if r.Intn(6) == 0 {
			n = 0
		}
		if plan != nil && plan.EthMsg && b == plan.At+2 && n < 2 {
			n = 2 // the block whose gov end-blocker executes the proposal's Ethereum message also carries ordinary traffic
		}
		type pend struct {
			kind      string
			t         trace.M
			intrinsic uint64
			key       string
			class     string
		}
		var txs [][]byte
		var ps []pend
		// nonces advance inside the block for consecutive txs of the same sender
		nextNonce := map[string]uint64{}
		var baseFee int64
		if twin != nil && b == 0 {
			baseFee = o.BaseFee
		} else {
			baseFee = c.BaseFee().Int64()
		}
		govIdx := -1
		if bz, t := w.govTx(plan, b, nextNonce, baseFee); bz != nil {
			govIdx = len(txs)
			txs = append(txs, bz)
			ps = append(ps, pend{kind: "Cosmos", t: t})
			stats["gov-tx"]++
			if plan.Replay && b == plan.At {
				stats["gov-carries-executed-eth-tx"]++
			} else if plan.EthMsg && b == plan.At {
				stats["gov-carries-unaffordable-eth-tx"]++
			}
		}
		if b == 0 && w.MinGP() > baseFee {
			// the only time the global minimum gas price can exceed the base fee while transactions run is the first block
			// (the fee market lifts the base fee at its end): a dynamic-fee Cosmos transaction whose cap clears the floor
			// while base fee + tip does not
			bz, t := w.genCosmosSendOpt(nextNonce, baseFee, true)
			txs = append(txs, bz)
			ps = append(ps, pend{kind: "Cosmos", t: t})
			stats["cosmos-dynfee-under-min-gas-price"]++
		}
		for i := 0; i < n; i++ {
			if r.Intn(6) == 0 {
				bz, t := w.genCosmosSend(nextNonce, baseFee)
				txs = append(txs, bz)
				ps = append(ps, pend{kind: "Cosmos", t: t})
				continue
			}
			if len(sent) > 0 && r.Intn(14) == 0 {
				// byte-identical replay of a transaction sent earlier (this block or any earlier one)
				old := sent[r.Intn(len(sent))]
				txs = append(txs, old.bz)
				ps = append(ps, pend{kind: "Eth", t: old.t, intrinsic: old.intrinsic, key: obs.TxKey(old.bz), class: "replay"})
				stats["replays"]++
				continue
			}
			s := w.genEthSpec(nextNonce, baseFee, &created)
			bz, t, ig, _ := w.BuildEth(s)
			txs = append(txs, bz)
			ps = append(ps, pend{kind: "Eth", t: t, intrinsic: ig, key: obs.TxKey(bz), class: s.Class})
			sent = append(sent, sentTx{bz: bz, t: t, intrinsic: ig})
		}
		if plan != nil && plan.EthMsg && b == plan.At+2 {
			// the last Ethereum transaction of the block whose gov end-blocker runs the proposal's Ethereum message is an
			// ordinary valid one: whatever per-transaction state the ante handler leaves behind is what the router path meets
			for try := 0; try < 40; try++ {
				s := w.genEthSpec(nextNonce, baseFee, &created)
				if s.Class != "valid" || s.To == "create" {
					continue
				}
				bz, t, ig, _ := w.BuildEth(s)
				txs = append(txs, bz)
				ps = append(ps, pend{kind: "Eth", t: t, intrinsic: ig, key: obs.TxKey(bz), class: s.Class})
				sent = append(sent, sentTx{bz: bz, t: t, intrinsic: ig})
				break
			}
		}
		obs.Drain()
		w.C = c // (block 1 was put together on the stand-in)
		h := c.Height + 1
		out.Emit(trace.M{"ev": "Begin", "h": h, "time": h * chain.BlockSecs})
		bo := c.Deliver(txs...)
		if bo.Panic != nil || bo.Err != nil {
			out.Emit(trace.M{"ev": "End", "panic": true, "what": fmt.Sprint(bo.Panic, bo.Err), "blockGas": 0, "nextBaseFee": 0, "blockBloomBits": []int{}})
			stats["block-panic"]++
			return
		}
		execs := map[string]*obs.Exec{}
		for _, e := range obs.Drain() {
			if e.Mode == "deliver" && e.TxKey != "" {
				execs[e.TxKey] = e
			}
		}
		var blockGas int64
		for i, p := range ps {
			res := bo.Res.TxResults[i]
			if p.kind == "Cosmos" {
				out.Emit(trace.M{"ev": "Cosmos", "t": p.t, "o": trace.M{"gasUsedRes": clampGas(res.GasUsed), "gasWanted": clampGas(res.GasWanted)},
					"r": trace.M{"code": codeOf(res), "log": trunc(res.Log, 160)}})
				continue
			}
			oo, rr := w.ObserveEth(res, execs[p.key], p.intrinsic)
			if res.Code == 0 && plan != nil {
				plan.Executed = append(plan.Executed, txs[i]) // executed once: its nonce is spent
			}
			out.Emit(trace.M{"ev": "Eth", "t": p.t, "o": oo, "r": rr, "class": "any", "aim": p.class})
			stats["eth"]++
		}
		_ = blockGas
		// the fee market's view: read back what EndBlock computed
		nb := c.BaseFee()
		bg := feeMarketGas(bo.Res)
		end := trace.M{"ev": "End", "panic": false, "blockGas": bg, "nextBaseFee": trace.I(nb), "blockBloomBits": BlockBloomBits(bo.Res)}
		gcode, gdata := int64(-1), []byte(nil)
		if govIdx >= 0 {
			gcode, gdata = codeOf(bo.Res.TxResults[govIdx]), bo.Res.TxResults[govIdx].Data
		}
		if g := w.govAfterBlock(plan, b, gcode, gdata); g != nil {
			end["gov"] = g
			if g["passed"].(bool) {
				stats["gov-params-executed"]++
			} else {
				stats["gov-proposal-rejected"]++
			}
		}
		out.Emit(end)
		st := w.Project()
		st["ev"] = "State"
		out.Emit(st)
	}
	stats["traces"]++
}

// NewVesting is an empty continuous vesting account ending at end (unix seconds).
func NewVesting(a common.Address, end int64) authtypes.GenesisAccount { return newVesting(a, end) }

// FreshAddr exposes the address scheme of the non-contract test addresses.
func FreshAddr(i int) common.Address { return freshAddr(i) }

func newVesting(a common.Address, end int64) authtypes.GenesisAccount {
	ba := authtypes.NewBaseAccount(a.Bytes(), nil, 0, 0)
	return &vestingtypes.ContinuousVestingAccount{
		BaseVestingAccount: &vestingtypes.BaseVestingAccount{BaseAccount: ba, OriginalVesting: sdk.Coins{}, EndTime: end},
		StartTime:          chain.T0,
	}
}

// feeMarketGas recomputes the block gas as the block gas meter saw it is not observable from
// outside; the trace carries -1 and the specification uses its own value (checked through the
// next base fee, which depends on it).
func feeMarketGas(res *abci.ResponseFinalizeBlock) int64 { return -1 }

func floorDec(s string) int64 {
	if i := strings.Index(s, "."); i >= 0 {
		s = s[:i]
	}
	n, _ := strconv.ParseInt(s, 10, 64)
	return n
}

func pick[T any](r *rand.Rand, xs ...T) T { return xs[r.Intn(len(xs))] }

func (w *World) genCosmosSend(nextNonce map[string]uint64, baseFee int64) ([]byte, trace.M) {
	return w.genCosmosSendOpt(nextNonce, baseFee, false)
}

// genCosmosSendOpt: forceDyn = a well-formed transaction with the dynamic-fee extension whose cap is at least the floor.
func (w *World) genCosmosSendOpt(nextNonce map[string]uint64, baseFee int64, forceDyn bool) ([]byte, trace.M) {
	r := w.R
	i := r.Intn(len(w.C.Accts))
	from := w.C.Accts[i]
	fname := fmt.Sprintf("a%d", i)
	seq, ok := nextNonce[fname]
	if !ok {
		seq = w.C.Seq(from.Addr)
	}
	useSeq := seq
	if r.Intn(8) == 0 {
		useSeq = seq + 1
	}
	toName := pick(r, "a0", "a1", "a2", "x2", "c0")
	amount := int64(r.Intn(50))
	if r.Intn(10) == 0 {
		amount = 2_000_000_000
	}
	gas := uint64(200000)
	price := baseFee + int64(r.Intn(3))
	if r.Intn(8) == 0 {
		price = maxI(baseFee-1, 0)
	}
	if minp := w.MinGP(); price < minp && r.Intn(3) != 0 {
		price = minp
	}
	bad := r.Intn(10) == 0
	if forceDyn {
		useSeq, bad = seq, false
		price = maxI(baseFee, w.MinGP()) + int64(r.Intn(2))
		amount = int64(1 + r.Intn(20))
	}
	msg := banktypes.NewMsgSend(from.Acc(), w.U.A(toName).Bytes(), sdk.NewCoins(sdk.NewInt64Coin(chain.Denom, amount)))
	if amount == 0 {
		amount = 1
		msg = banktypes.NewMsgSend(from.Acc(), w.U.A(toName).Bytes(), sdk.NewCoins(sdk.NewInt64Coin(chain.Denom, amount)))
	}
	// a quarter of the Cosmos-lane transactions carry ExtensionOptionDynamicFeeTx: the declared fee is a cap, the price paid
	// is min(base fee + tip, cap) - and it is THAT price the floor applies to
	tip := int64(-1)
	var ext []*codectypes.Any
	if r.Intn(4) == 0 || forceDyn {
		tip = int64(r.Intn(3))
		if d := w.MinGP() - baseFee; forceDyn && d > 0 {
			tip = int64(r.Intn(int(d))) // base fee + tip stays under the minimum gas price
		}
		price += int64(r.Intn(4))
		any, err := codectypes.NewAnyWithValue(&evertypes.ExtensionOptionDynamicFeeTx{MaxPriorityPrice: sdkmath.NewInt(tip)})
		if err != nil {
			panic(err)
		}
		ext = []*codectypes.Any{any}
	}
	bz, err := w.C.CosmosTx(from, []sdk.Msg{msg}, chain.CosmosTxOpts{Gas: gas, GasPrice: price, Seq: &useSeq, BadSig: bad, ExtOpts: ext})
	if err != nil {
		panic(err)
	}
	if useSeq == seq && !bad {
		// predicted admission is the spec's business; the driver only tracks its best guess for nonces
		eff := price
		if tip >= 0 && baseFee+tip < price {
			eff = baseFee + tip
		}
		if eff >= maxI(baseFee, w.MinGP()) && eff > 0 && w.C.Bal(from.Addr, chain.Denom).Int64() >= int64(gas)*eff {
			nextNonce[fname] = seq + 1
		}
	}
	return bz, trace.M{"from": fname, "seqno": trace.U(useSeq), "gas": trace.U(gas), "fee": int64(gas) * price, "to": toName, "amount": amount, "sigok": !bad, "tip": tip}
}

func maxI(a, b int64) int64 {
	if a > b {
		return a
	}
	return b
}

// stratum counts the Ethereum transactions generated in this process: every second transaction
// takes its (kind, perturbation) pair from a fixed enumeration instead of the dice, so that a run
// of a few hundred transactions meets every pair at least once.
var stratum int

const (
	nKinds = 3
	nPert  = 13
)

func (w *World) genEthSpec(nextNonce map[string]uint64, baseFee int64, created *int) EthSpec {
	r := w.R
	stratum++
	forceKind, forcePert := -1, -1
	if stratum%2 == 0 {
		k := (stratum / 2) % (nKinds * nPert)
		forceKind, forcePert = k%nKinds, k/nKinds
	}
	i := r.Intn(len(w.C.Accts))
	from := w.C.Accts[i]
	s := EthSpec{From: from, FromName: fmt.Sprintf("a%d", i), Signer: from, Chain: "ok", Tamper: "none", Shape: "ok", Init: "none", Runtime: "none", NewAddr: "none"}
	seq, ok := nextNonce[s.FromName]
	if !ok {
		seq = w.C.Seq(from.Addr)
	}
	s.Nonce = seq
	s.Type = r.Intn(3)
	s.AL = s.Type > 0 && r.Intn(3) == 0
	floor := maxI(baseFee, w.MinGP())
	s.Price = floor + int64(r.Intn(4))
	if s.Type == 2 {
		s.Tip = int64(r.Intn(4))
		s.Price = floor + int64(r.Intn(6))
	}
	// what to do
	kk := r.Intn(20)
	switch forceKind {
	case 0:
		kk = 0
	case 1:
		kk = 3
	case 2:
		kk = 10
	}
	switch k := kk; {
	case k < 3:
		s.To = pick(r, "a0", "a1", "a2", "a3", "x0", "x1", "z0", "c3", "c0", "fc", "m0")
		s.Value = int64(r.Intn(30))
		s.Gas = pick(r, uint64(21000), 21000, 30000, 60000)
	case k < 5:
		s.To = "create"
		s.Init = w.Tid + "_" + pick(r, "i0", "i1", "i2", "i2", "i3", "i4", "i5")
		s.Runtime = w.Tid + "_rt"
		if strings.HasSuffix(s.Init, "i3") || strings.HasSuffix(s.Init, "i4") || r.Intn(6) == 0 {
			s.Runtime = "none" // a creation that succeeds and leaves no code behind
		}
		s.Value = int64(r.Intn(3))
		s.Gas = pick(r, uint64(53000), 100000, 200000, 300000)
	default:
		ci := r.Intn(w.NContracts)
		s.To = fmt.Sprintf("c%d", ci)
		ents := sortedKeys(w.T.Ops[w.Tid+"_"+s.To])
		s.Sel = pick(r, ents...)
		s.Value = int64(r.Intn(8))
		s.Gas = pick(r, uint64(30000), 60000, 100000, 200000, 300000, 300000)
	}
	s.Class = "valid"
	// perturbations
	pk := r.Intn(40)
	if forcePert >= 0 {
		pk = forcePert
	}
	switch k := pk; {
	case k == 0:
		s.Nonce = seq + 1
		s.Class = "nonce-future"
	case k == 1 && seq > 0:
		s.Nonce = seq - 1
		s.Class = "nonce-stale"
	case k == 2:
		s.Chain = "other"
		s.Class = "chain-other"
	case k == 3 && s.Type == 0:
		s.Chain = "none"
		s.Class = "unprotected"
	case k == 4:
		s.Signer = w.C.Accts[(i+1)%len(w.C.Accts)]
		s.Class = "signer-mismatch"
	case k == 5:
		s.Tamper = "payload"
		s.Class = "tamper-payload"
	case k == 6:
		s.Tamper = "sig"
		s.Class = "tamper-sig"
	case k == 7:
		s.Price = maxI(floor-1, 0)
		s.Class = "price-below-floor"
	case k == 8:
		s.Value = 2_000_000_000
		s.Class = "value-above-balance"
	case k == 9:
		s.Gas = 20999
		s.Class = "gas-below-intrinsic"
	case k == 10:
		s.Gas = 20000
		s.Class = "gas-below-minimum"
	case k == 11 && s.Type == 2:
		s.Tip = s.Price + 1
		s.Class = "tip-above-cap"
	case k == 12:
		s.Gas = 2_000_000
		s.Class = "fee-above-balance-or-big"
	}
	if s.To == "create" {
		na := crypto.CreateAddress(s.From.Addr, s.Nonce)
		if n, ok := w.U.ByAddr[na]; ok {
			s.NewAddr = n
		} else {
			s.NewAddr = fmt.Sprintf("n%d", *created)
			*created++
			w.U.Add(s.NewAddr, na)
		}
	}
	if s.Class == "valid" || s.Class == "value-above-balance" || s.Class == "gas-below-intrinsic" || s.Class == "fee-above-balance-or-big" {
		eff := s.Price
		if s.Type == 2 && s.Tip+baseFee < s.Price {
			eff = s.Tip + baseFee
		}
		ep := w.C.App.EvmKeeper.GetParams(w.C.Ctx())
		off := (s.To == "create" && !ep.EnableCreate) || (s.To != "create" && !ep.EnableCall)
		if !off && eff >= floor && w.C.Bal(from.Addr, chain.Denom).Int64() >= int64(s.Gas)*eff {
			nextNonce[s.FromName] = seq + 1
		}
	}
	return s
}
