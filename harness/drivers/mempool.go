package drivers

import (
	"fmt"
	"math/rand"

	abci "github.com/cometbft/cometbft/abci/types"
	sdk "github.com/cosmos/cosmos-sdk/types"

	"verifharness/chain"
	"verifharness/obs"
	"verifharness/prog"
	"verifharness/trace"
)

// MempoolOpts configures the mempool-admission driver (spec/TraceMempool.tla).
type MempoolOpts struct {
	Seed   int64
	Traces int
	Rounds int
}

// committedCtx reads the committed state (the root store between blocks), not the volatile check state.
func committedCtx(c *chain.Chain) sdk.Context {
	return c.App.BaseApp.NewUncachedContext(false, c.Ctx().BlockHeader())
}

// GenMempool: CheckTx / ReCheckTx of generated Ethereum transactions interleaved with blocks.
func GenMempool(out *trace.W, tbl *prog.Table, opts MempoolOpts) map[string]int {
	obs.Install()
	stats := map[string]int{}
	for ti := 0; ti < opts.Traces; ti++ {
		r := rand.New(rand.NewSource(opts.Seed*1000211 + int64(ti)))
		genOneMempool(out, tbl, r, fmt.Sprintf("p%d_%d", opts.Seed, ti), opts.Rounds, stats)
	}
	return stats
}

type mpTx struct {
	bz        []byte
	t         trace.M
	intrinsic uint64
	from      string
}

func genOneMempool(out *trace.W, tbl *prog.Table, r *rand.Rand, tid string, rounds int, stats map[string]int) {
	nodeMin := int64(0)
	w, o := NewEthWorld(tbl, r, tid, func(o *chain.Opts) {
		o.MaxGas = -1
		if r.Intn(3) == 0 {
			nodeMin = int64(8 + r.Intn(10))
			o.MinGasPricesNode = fmt.Sprintf("%d%s", nodeMin, chain.Denom)
		}
	})
	c := w.C
	g := w.ProjectAt(committedCtx(c))
	g["ev"], g["tid"] = "Genesis", tid
	g["minGP"], g["maxGas"], g["now"] = floorDec(o.MinGasPrice), o.MaxGas, c.Height*chain.BlockSecs
	g["enableCreate"], g["enableCall"] = !o.EvmDisableCreate, !o.EvmDisableCall
	out.Emit(g)

	created := 0
	var pool []mpTx // accepted, not yet in a block, in arrival order
	check := func(x mpTx, mode string) bool {
		obs.Drain()
		typ := abci.CheckTxType_New
		if mode == "recheck" {
			typ = abci.CheckTxType_Recheck
		}
		res, err := c.App.CheckTx(&abci.RequestCheckTx{Tx: x.bz, Type: typ})
		accepted := err == nil && res.Code == 0
		root := trace.M{"st": "notrun", "ch": []interface{}{}}
		for _, e := range obs.Drain() {
			if (e.Mode == "check" || e.Mode == "recheck") && e.Root != nil {
				root = frameOut(e.Root)
			}
		}
		lg := ""
		if res != nil {
			lg = trunc(res.Log, 140)
		}
		out.Emit(trace.M{"ev": "Check", "mode": mode, "t": x.t, "nodeMin": nodeMin,
			"o":         trace.M{"intrinsic": trace.U(x.intrinsic), "root": root, "gasUsedRes": int64(0)},
			"got":       trace.M{"accepted": accepted, "log": lg},
			"chk":       w.ProjectAt(c.Ctx()),
			"committed": w.ProjectAt(committedCtx(c))})
		stats[mode]++
		return accepted
	}
	for round := 0; round < rounds; round++ {
		baseFee := c.BaseFee().Int64()
		for n := 1 + r.Intn(4); n > 0; n-- {
			s := w.genEthSpec(map[string]uint64{}, baseFee, &created) // nonces are read from the check state
			if nodeMin > 0 && r.Intn(2) == 0 && s.Class == "valid" {
				s.Price = maxI(baseFee, nodeMin) + int64(r.Intn(3)) // above and around the node's own floor
			}
			bz, t, ig, _ := w.BuildEth(s)
			x := mpTx{bz: bz, t: t, intrinsic: ig, from: s.FromName}
			if check(x, "new") {
				pool = append(pool, x)
			}
		}
		if r.Intn(3) != 0 {
			// a block with a prefix of the pool (arrival order keeps every sender's nonces consecutive)
			k := r.Intn(len(pool) + 1)
			var txs [][]byte
			for _, x := range pool[:k] {
				txs = append(txs, x.bz)
			}
			bo := c.Deliver(txs...)
			if bo.Panic != nil || bo.Err != nil {
				stats["block-panic"]++
				return
			}
			pool = pool[k:]
			cm := w.ProjectAt(committedCtx(c))
			cm["ev"], cm["now"], cm["chk"] = "Commit", c.Height*chain.BlockSecs, w.ProjectAt(c.Ctx())
			out.Emit(cm)
			stats["commits"]++
			// CometBFT re-checks what is left, in order
			var keep []mpTx
			for _, x := range pool {
				if check(x, "recheck") {
					keep = append(keep, x)
				}
			}
			pool = keep
		}
	}
	stats["traces"]++
}
