"""C17 (CpcRegistry.tla / TraceCpcRegistry.tla) and C18 (Genesis.tla / TraceGenesis.tla).

C17: exhaustive design run of the registry model; binding = operation trees (complete enumeration of an operation
alphabet up to a depth, from every genesis flag combination) and random operation sequences executed through real
messages on the real application, with the full registry projection and EVM probe calls to every candidate address
in every execution mode after each step; TLC judges every line through TraceCpcRegistry.tla.

C18: exhaustive design run of the export/import model; binding = states reached by real histories, real
ExportAppStateAndValidators, InitChain of a fresh application from the export, projections of the four custom modules
on both applications and the second export; TLC judges every record through TraceGenesis.tla."""
import concurrent.futures
import json
import os
import shutil
import subprocess

import vlib
from vlib import Infra, Verdict, Work, log, register

NPROC = int(os.environ.get("VERIF_PROCS", "16"))


def run_shards(cmd_args, out, shards, timeout=3000):
    """Run `vh_misc <cmd_args> -shard i -shards n -out out` for all i in parallel (the driver is CPU bound and
    every scenario owns its application instance)."""
    exe = vlib.bin_path("vh_misc")

    def one(i):
        p = subprocess.run([exe] + cmd_args + ["-shard", str(i), "-shards", str(shards), "-out", out], env=vlib.GOENV,
                           stdout=subprocess.PIPE, stderr=subprocess.STDOUT, text=True, timeout=timeout)
        if p.returncode != 0:
            raise Infra("driver failed (%d): vh_misc %s shard %d\n%s" % (p.returncode, " ".join(cmd_args), i, p.stdout[-3000:]))
        return i

    with concurrent.futures.ThreadPoolExecutor(max_workers=min(shards, NPROC)) as ex:
        list(ex.map(one, range(shards)))


def split_traces(lines, start='"ev":"Genesis"'):
    """-> list of traces (lists of lines), each starting with a Genesis line."""
    out = []
    for ln in lines:
        if start in ln:
            out.append([])
        if not out:
            raise Infra("trace does not start with a Genesis line")
        out[-1].append(ln)
    return out


def chunks_of(traces, max_lines):
    cur, n, out = [], 0, []
    for t in traces:
        if cur and n + len(t) > max_lines:
            out.append(cur)
            cur, n = [], 0
        cur.append(t)
        n += len(t)
    if cur:
        out.append(cur)
    return out


def validate_trace(d, module, cfg_text, timeout=1800):
    """vlib.validate_trace, tolerant of TLC wrapping long tuples over several lines."""
    import re
    vlib.stage_spec(d)
    cfg = module + "_run.cfg"
    with open(os.path.join(d, cfg), "w") as f:
        f.write(cfg_text)
    r = vlib.tlc(d, module, cfg, workers=1, timeout=timeout)
    flat = re.sub(r"<<\s+", "<<", re.sub(r"\s+>>", ">>", re.sub(r",\s*\n\s*", ", ", r["out"])))
    res = {"states": r["generated"], "distinct": r["distinct"], "out": r["out"], "err": None, "coverage": {}, "admitted": 0, "skipped": []}
    m = vlib.ERR_RE.findall(flat)
    if m:
        res["err"] = (int(m[-1][0]), m[-1][1], m[-1][2])
    c = vlib.COV_RE.findall(flat)
    if c:
        res["coverage"] = json.loads(c[-1][0].replace('\\"', '"'))
        res["admitted"] = int(c[-1][1])
    res["flat"] = flat
    res["also"] = [(int(a), b, c) for a, b, c in re.findall(r'<<"LAWBROKEN-ALSO", (\d+), "([^"]*)", "([^"]*)">>', flat)]
    res["accepted"] = r["ok"] and not m
    if not res["accepted"] and not m:
        raise Infra("trace rejected without a named law:\n" + r["out"][-4000:])
    return res


def validate_lines(w, name, module, cfg_text, lines, extra_files=()):
    d = w.sub(name)
    with open(os.path.join(d, "trace.ndjson"), "w") as f:
        f.write("\n".join(lines) + "\n")
    for src in extra_files:
        shutil.copy(src, d)
    return validate_trace(d, module, cfg_text)


# =================================================================================================
# C17
# =================================================================================================

C17_CFG = ("SPECIFICATION TraceSpec\nCONSTANT Senders = {}\nCONSTANT Gov = \"gov\"\nCONSTANT Denoms = {}\nCONSTANT BondDenom = \"wei\"\n"
           "CONSTANT DynAddrs <- TraceDynAddrs\nCONSTANT Names = {}\nCONSTANT MaxVer = 1\nCONSTANT MaxOps = 0\nCONSTANT InitWL = {}\n"
           "INVARIANT Coverage\nPOSTCONDITION TraceAccepted\nCHECK_DEADLOCK FALSE\n")

C17_SIZES = {
    "quick": dict(tree=[("", 2)], random=48, rlen=6, many="108", mc="CpcRegistry_mc.cfg", chunk=4000),
    "thorough": dict(tree=[("0,3", 3), ("1,2,4,5", 2)], random=1200, rlen=10, many="108,100,101", mc="CpcRegistry_mc_thorough.cfg", chunk=3000),
}


def c17_mc(v, w, tier):
    d = w.sub("mc")
    vlib.stage_spec(d)
    r = vlib.tlc(d, "CpcRegistry_mc", "CpcRegistry_mc_witness.cfg", workers=1, timeout=1200)
    if r["violated"]:
        raise Infra("design model CpcRegistry_mc is vacuous (a witness situation is unreachable):\n" + r["out"][-1500:])
    cfg = C17_SIZES[tier]["mc"]
    r = vlib.tlc(d, "CpcRegistry_mc", cfg, workers=16, timeout=6000)
    v.add_mc(r)
    if r["violated"]:
        raise Infra("design model CpcRegistry_mc violates a law (specification bug):\n" + r["out"][-3000:])
    log("design run CpcRegistry_mc/%s: %d distinct states, %d transitions, all laws hold; witnesses reachable" % (cfg, r["distinct"], r["generated"]))


def path_to(trace, idx):
    """Linear trace (Genesis + ancestors + line idx) of a DFS-ordered tree trace."""
    keep = [idx]
    need = json.loads(trace[idx])["d"] - 1
    i = idx - 1
    while i > 0 and need >= 0:
        e = json.loads(trace[i])
        # the ancestor at depth k is the nearest earlier line applied to depth k (its result is the state at depth k+1)
        if e["d"] == need:
            keep.append(i)
            need -= 1
        i -= 1
    keep.append(0)
    return [trace[k] for k in sorted(keep)]


def drop_subtree(trace, idx):
    d = json.loads(trace[idx])["d"]
    j = idx + 1
    while j < len(trace) and json.loads(trace[j])["d"] > d:
        j += 1
    return trace[:idx] + trace[j:]


def c17_corruptions(trace):
    """Binding self-test: variants of a trace with one recorded field changed; each must be rejected."""
    out = []
    # (a) a registry field: flip the disabled flag of one stored record in the first accepted op line
    for i, ln in enumerate(trace):
        e = json.loads(ln)
        if e["ev"] == "Op" and e["res"]["ok"] and e["reg"]["meta"]:
            a = sorted(e["reg"]["meta"])[0]
            e["reg"]["meta"][a]["disabled"] = not e["reg"]["meta"][a]["disabled"]
            out.append(("registry field meta[%s].disabled of line %d" % (a, i + 1), trace[:i] + [json.dumps(e)] + trace[i + 1:]))
            break
    # (b) a probe cell: an absent address answers like a contract in one mode
    for i, ln in enumerate(trace):
        e = json.loads(ln)
        if e.get("full") and "fresh" in e["probe"]:
            e["probe"]["fresh"]["d1"][2] = "data:s0|data:s0"
            out.append(("probe cell fresh/d1/simulate of line %d" % (i + 1), trace[:i] + [json.dumps(e)] + trace[i + 1:]))
            break
    # (c) an operation result: a deploy by the non-whitelisted sender reported as accepted
    for i, ln in enumerate(trace):
        e = json.loads(ln)
        if e["ev"] == "Op" and e["op"]["k"] == "DeployErc20" and e["op"]["sender"] == "n" and not e["res"]["ok"]:
            e["res"]["ok"] = True
            out.append(("result of the non-whitelisted deploy of line %d" % (i + 1), trace[:i] + [json.dumps(e)] + trace[i + 1:]))
            break
    # (d) the top-level empty-calldata probe of a registered contract answers like a plain account in one mode
    for i, ln in enumerate(trace):
        e = json.loads(ln)
        regd = sorted(e["reg"]["meta"])
        if e.get("full") and regd and regd[0] in e["probe"]:
            e["probe"][regd[0]]["e0"][0] = "empty|empty"
            out.append(("probe cell %s/e0/deliver (empty calldata) of line %d" % (regd[0], i + 1), trace[:i] + [json.dumps(e)] + trace[i + 1:]))
            break
    # (e) one wei left at a registered contract by the value probes
    for i, ln in enumerate(trace):
        e = json.loads(ln)
        regd = sorted(e["reg"]["meta"])
        if e.get("full") and regd and regd[0] in e.get("bal", {}):
            e["bal"][regd[0]][1] += 1
            out.append(("balance of %s after the value probes of line %d" % (regd[0], i + 1), trace[:i] + [json.dumps(e)] + trace[i + 1:]))
            break
    if len(out) < 5:
        raise Infra("self-test: the first trace offers nothing to corrupt (%d of 5)" % len(out))
    return out


@register("C17")
def check_c17(pid, tier, seed, replay):
    v = Verdict(pid, tier, seed)
    w = Work(pid)
    try:
        if replay:
            lines = vlib.read_lines(os.path.join(replay, "trace.ndjson"))
            r = validate_lines(w, "replay", "TraceCpcRegistry", C17_CFG, lines)
            if r["err"]:
                log("replay: rejected at line %d: %s / %s" % r["err"])
                log("VIOLATION property=%s replay=%s" % (pid, replay))
                return 1
            log("replay: accepted")
            return 0
        vlib.build("vh_misc")
        c17_mc(v, w, tier)
        sz = C17_SIZES[tier]
        d = w.sub("traces")
        lines = []
        stats = {"Nodes": 0, "Probes": 0, "Accepted": 0, "Rejected": 0, "Traces": 0}
        runs = [(["registry", "-seed", str(seed), "-depth", str(depth), "-random", "0", "-cfgs", cfgs], "tree%d" % k)
                for k, (cfgs, depth) in enumerate(sz["tree"])]
        runs.append((["registry", "-seed", str(seed), "-depth", "0", "-random", str(sz["random"]), "-len", str(sz["rlen"]), "-scripted", "-many", sz["many"]], "rand"))
        for args, name in runs:
            dd = os.path.join(d, name)
            os.makedirs(dd)
            run_shards(args, dd, NPROC)
            for i in range(NPROC):
                lines += vlib.read_lines(os.path.join(dd, "trace-%d.ndjson" % i))
                with open(os.path.join(dd, "stats-%d.json" % i)) as f:
                    s = json.load(f)
                for k in stats:
                    stats[k] += s[k]
        traces = split_traces(lines)
        log("driver: %d genesis-rooted traces, %d nodes (%d accepted / %d rejected operations), %d probe calls"
            % (len(traces), stats["Nodes"], stats["Accepted"], stats["Rejected"], stats["Probes"]))
        cov_total, states, rejected_lines = {}, 0, 0
        for ci, chunk in enumerate(chunks_of(traces, sz["chunk"])):
            remaining = [ln for t in chunk for ln in t]
            for rounds in range(5):
                r = validate_lines(w, "val%d_%d" % (ci, rounds), "TraceCpcRegistry", C17_CFG, remaining)
                states += r["states"]
                if r["err"] is None:
                    for k, n in r["coverage"].items():
                        cov_total[k] = cov_total.get(k, 0) + n
                    break
                line, group, detail = r["err"]
                a, b = vlib.trace_of_line(remaining, line)
                tr = remaining[a:b + 1]
                idx = line - 1 - a
                bad = path_to(tr, idx) if idx > 0 else tr[:1]
                tid = ("%s_%s" % (group, detail)).replace("/", "_")   # one replay per broken law (the latest)
                rp = vlib.save_replay(pid, tid, [(bad, "trace.ndjson")],
                                      "law %s/%s broken at the last line of this trace (seed %d, tier %s): %s\nre-check: bin/check %s --replay <this dir>"
                                      % (group, detail, seed, tier, json.loads(tr[idx]).get("txt", "genesis"), pid))
                with open(os.path.join(rp, "tlc.out"), "w") as f:
                    f.write(r["out"][-20000:])
                v.violation("%s/%s" % (group, detail), rp, "trace %s, operation %s" % (json.loads(tr[0]).get("tid", "trace"), json.loads(tr[idx]).get("txt", "genesis")))
                for aline, agroup, adetail in r.get("also", []):
                    if aline == line:   # the exposure law broken by the same line (same replay)
                        v.violation("%s/%s" % (agroup, adetail), rp, "same line: trace %s, operation %s" % (json.loads(tr[0]).get("tid", "trace"), json.loads(tr[idx]).get("txt", "genesis")))
                rejected_lines += 1
                # go on without the offending node and its subtree (a broken genesis line drops its whole trace)
                tr2 = drop_subtree(tr, idx) if idx > 0 else []
                remaining = remaining[:a] + tr2 + remaining[b + 1:]
                if len(set(x[0] for x in v.violations)) < len(v.violations) or not remaining:
                    break  # the same law again: enough
        v.cov["states"] += states
        v.cov["transitions"] += states
        v.cov["traces_validated_against_impl"] = len(traces) if rejected_lines == 0 else max(0, len(traces) - rejected_lines)
        v.cov["evaluations"] = sum(n for k, n in cov_total.items() if k.startswith("probe."))
        v.cov["distinct_nontrivial"] = sum(n for k, n in cov_total.items() if k.endswith(".accepted"))
        v.cov["classes"] = cov_total
        v.cov["nodes"] = stats["Nodes"]
        v.cov["exhaustive"] = True
        v.cov["rule"] = ("operation trees: every sequence over the alphabet {DeployErc20 x {whitelisted, not} x {denom with supply, zero supply, "
                         "bond denom}, DeployStaking x 2 senders, UpdateParams x {gov: widen, empty, version 0; self-signed; forged authority}, "
                         "SetDisabled(each registered)} up to depth %s from each of 6 genesis configurations (exhaustive), plus %d random "
                         "sequences of %d operations with edge-case names/symbols/decimals/denoms, Retype and protocol-version fabrication, and 3 "
                         "+1 scripted scenarios (version downgrade refused, disable/enable, retype, redeploy, whitelist emptied / replaced, total supply of a "
                         "deployed ERC-20 denomination burnt to zero through the precompile and minted back), and the "
                         "'many contracts' scenario(s) registering %s ERC-20 precompiles by real messages (9 per block) with probes after the "
                         "99th / 100th / 101st / last; "
                         "probe inputs: name(), bech32 prefix view, EMPTY calldata with value 0 and 1, 1-3 byte calldata, top-level and through CALL / "
                         "STATICCALL / DELEGATECALL / CALLCODE proxies, plus the balance every candidate gains from the value probes; "
                         "evaluations = probe cells judged (address x mode x input x route); non-trivial = accepted (state-changing) operations"
                         % ("/".join(str(dp) for _, dp in sz["tree"]), sz["random"], sz["rlen"], sz["many"]))
        v.cov["samples"] = [json.loads(x).get("txt") for x in traces[0][1:6]]
        # binding self-test on the first tree
        first = traces[0]
        tests = []
        corr = c17_corruptions(first)
        with concurrent.futures.ThreadPoolExecutor(max_workers=len(corr)) as ex:
            results = list(ex.map(lambda kb: validate_lines(w, "selftest%d" % kb[0], "TraceCpcRegistry", C17_CFG, kb[1][1]), enumerate(corr)))
        for (what, _), rs in zip(corr, results):
            if rs["err"] is None:
                raise Infra("binding self-test failed (binding vacuous): corrupted %s was accepted" % what)
            tests.append("%s -> %s/%s" % (what, rs["err"][1], rs["err"][2]))
            log("binding self-test: corrupted %s rejected with %s/%s" % (what, rs["err"][1], rs["err"][2]))
        v.cov["selftest"] = tests
        need = ["op.DeployErc20.accepted", "op.DeployErc20.rejected", "op.DeployStaking.accepted", "op.UpdateParams.accepted",
                "op.UpdateParams.rejected", "op.SetDisabled.accepted", "probe.runs", "probe.refused", "probe.absent", "probe.std",
                "probe.registered-toplevel-empty-calldata", "probe.running-erc20-with-zero-supply"]
        missing = [k for k in need if not cov_total.get(k)]
        if missing and not v.violations:
            raise Infra("conformance run vacuous: outcome classes never seen: %s" % missing)
        v.assumptions = ["SetDisabled / Retype / protocol version 2 are keeper- or store-level operations (no message exists)",
                         "UpdateParams with gov authority runs through a real governance proposal (submit, vote, EndBlocker execution)",
                         "CheckTx exposes no return data: the check-mode observation is the call frame seen by hook H1",
                         "candidate addresses are sampled (registered, next dynamic, neighbours, 0x0-0xa, EOA, module account, fresh)"]
        return v.finish()
    finally:
        w.cleanup()


# =================================================================================================
# C18
# =================================================================================================

C18_SIZES = {
    "quick": dict(traces=96, blocks=12, every=4, mc="Genesis_mc_witness.cfg", mc_workers=1),
    "thorough": dict(traces=2400, blocks=16, every=4, mc="Genesis_mc.cfg", mc_workers=4),
}


def c18_cfg(known):
    return ("SPECIFICATION TraceSpec\nCONSTANT Known = {%s}\nINVARIANT Coverage\nPOSTCONDITION TraceAccepted\nCHECK_DEADLOCK FALSE\n"
            % ", ".join('"%s"' % k for k in sorted(known)))


def c18_signature(group, detail):
    if group == "RoundTrip" or (group == "Continue" and detail.startswith("Export/")):
        return detail
    if group == "Continue":
        return "Continue:" + detail
    return "%s/%s" % (group, detail)


def extra_findings():
    """Development aid: VERIF_EXTRA_FINDINGS=<file> is read in addition to KNOWN_FINDINGS.txt (to exercise the
    known-finding path with proposed lines before the coordinator accepts them)."""
    p = os.environ.get("VERIF_EXTRA_FINDINGS")
    if not p:
        return
    base = vlib.known_findings
    import re

    def merged():
        out = base()
        for ln in vlib.read_lines(p):
            m = re.match(r"finding:\s+property=(\S+)\s+signature=(\S+)\s+(.*)", ln)
            if m:
                out.setdefault(m.group(1), {})[m.group(2)] = m.group(3)
        return out
    vlib.known_findings = merged


def c18_mc(v, w, tier):
    d = w.sub("mc")
    vlib.stage_spec(d)
    sz = C18_SIZES[tier]
    # the small domain with the vacuity witnesses (every deviation occurs, plain worlds and zero-valued slots exist)
    r = vlib.tlc(d, "Genesis_mc", "Genesis_mc_witness.cfg", workers=1, timeout=1200)
    if r["violated"]:
        raise Infra("design model Genesis_mc: theorem violated or a witness unreachable (specification bug):\n" + r["out"][-2500:])
    if sz["mc"] != "Genesis_mc_witness.cfg":
        r = vlib.tlc(d, "Genesis_mc", sz["mc"], workers=sz["mc_workers"], timeout=6000)
        if r["violated"]:
            raise Infra("design model Genesis_mc violates the round-trip theorem (specification bug):\n" + r["out"][-2500:])
    v.add_mc(r)
    log("design run Genesis_mc/%s: %d worlds, specified export/import round-trips every one; the implementation model loses exactly the named deviations"
        % (sz["mc"], r["distinct"] - 1))


def c18_corruptions(trace):
    out = []
    for i, ln in enumerate(trace):
        e = json.loads(ln)
        if e["ev"] != "RoundTrip" or e["failed"] != "none":
            continue
        # (a) a re-imported base fee off by one
        e1 = json.loads(ln)
        e1["B"]["fm"]["baseFee"] += 1
        e1["B"]["fm"]["qBaseFee"] += 1
        out.append(("B.fm.baseFee of line %d" % (i + 1), trace[:i] + [json.dumps(e1)] + trace[i + 1:]))
        # (b) a storage value of a contract with code changed in the re-imported state
        e2 = json.loads(ln)
        done = False
        for a in sorted(e2["B"]["evm"]["stor"]):
            for s in sorted(e2["B"]["evm"]["stor"][a]):
                if e2["B"]["evm"]["stor"][a][s] > 0:
                    e2["B"]["evm"]["stor"][a][s] += 1
                    if a in e2["B"]["evm"]["qstor"] and s in e2["B"]["evm"]["qstor"][a]:
                        e2["B"]["evm"]["qstor"][a][s] += 1
                    done = True
                    break
            if done:
                break
        if done:
            out.append(("B.evm.stor of line %d" % (i + 1), trace[:i] + [json.dumps(e2)] + trace[i + 1:]))
        # (c) the second export differs
        e3 = json.loads(ln)
        e3["X2"]["rawTok"]["feemarket"] = "sX"
        out.append(("X2.rawTok.feemarket of line %d" % (i + 1), trace[:i] + [json.dumps(e3)] + trace[i + 1:]))
        if done:
            break
        out = []
    if len(out) < 3:
        raise Infra("self-test: no round-trip record with contract storage to corrupt")
    return out


@register("C18")
def check_c18(pid, tier, seed, replay):
    extra_findings()
    v = Verdict(pid, tier, seed)
    w = Work(pid)
    try:
        if replay:
            lines = vlib.read_lines(os.path.join(replay, "trace.ndjson"))
            kn = set()
            if os.path.exists(os.path.join(replay, "known.json")):
                with open(os.path.join(replay, "known.json")) as f:
                    kn = set(json.load(f))
            r = validate_lines(w, "replay", "TraceGenesis", c18_cfg(kn), lines)
            if r["err"]:
                log("replay: rejected at line %d: %s / %s" % r["err"])
                log("VIOLATION property=%s replay=%s" % (pid, replay))
                return 1
            log("replay: accepted")
            return 0
        vlib.build("vh_misc")
        c18_mc(v, w, tier)
        sz = C18_SIZES[tier]
        d = w.sub("traces")
        run_shards(["genesis", "-seed", str(seed), "-traces", str(sz["traces"]), "-blocks", str(sz["blocks"]), "-every", str(sz["every"])], d, NPROC)
        lines, stats = [], {}
        for i in range(NPROC):
            lines += vlib.read_lines(os.path.join(d, "trace-%d.ndjson" % i))
            with open(os.path.join(d, "stats-%d.json" % i)) as f:
                for k, n in json.load(f).items():
                    stats[k] = stats.get(k, 0) + n
        traces = split_traces(lines)
        nrec = sum(1 for ln in lines if '"ev":"RoundTrip"' in ln)
        log("driver: %d histories, %d round-trip records (state, export, re-imported state, second export, continuation)" % (len(traces), nrec))
        known = set()          # deviations tolerated so far (every one is reported once)
        cov_total, states, used = {}, 0, set()
        rejected = 0
        incomplete = False
        masked = set()         # generic laws already reported (masked for the following rounds)
        for rounds in range(12):
            r = None
            cov_total, used_round = {}, set()
            broke = None
            for ci, chunk in enumerate(chunks_of(traces, 1500)):
                chunk_lines = [ln for t in chunk for ln in t]
                r = validate_lines(w, "val%d_%d" % (rounds, ci), "TraceGenesis", c18_cfg(known), chunk_lines)
                states += r["states"]
                if r["err"] is not None:
                    broke = (r, chunk_lines)
                    break
                for k, n in r["coverage"].items():
                    cov_total[k] = cov_total.get(k, 0) + n
                import re
                m = re.findall(r'<<"DEVIATIONS", \{(.*?)\}>>', r["flat"])
                if m:
                    used_round |= set(re.findall(r'"([^"]+)"', m[-1]))
            if broke is None:
                used = used_round
                break
            r, chunk_lines = broke
            line, group, detail = r["err"]
            sig = c18_signature(group, detail)
            a, b = vlib.trace_of_line(chunk_lines, line)
            bad = [chunk_lines[a], chunk_lines[line - 1]]
            e = json.loads(chunk_lines[line - 1])
            tid = sig.replace("/", "_").replace(":", "_")   # one replay per broken law (the latest), so the directory stays bounded
            rp = vlib.save_replay(pid, tid, [(bad, "trace.ndjson")],
                                  "law %s broken by the round-trip record of this trace (seed %d, tier %s, history so far: %s)\nre-check: bin/check %s --replay <this dir>"
                                  % (sig, seed, tier, json.dumps(e.get("hist", {})), pid))
            with open(os.path.join(rp, "tlc.out"), "w") as f:
                f.write(r["out"][-20000:])
            with open(os.path.join(rp, "known.json"), "w") as f:
                json.dump(sorted(known), f)   # deviations tolerated when this law broke: the replay re-checks under the same ones
            v.violation(sig, rp, "history %s, round trip %s at height %s%s" % (e.get("tid"), e.get("k"), e.get("h"), "" if e.get("failed", "none") == "none" else ": " + e["failed"]))
            rejected += 1
            if sig.startswith("Export/") and sig not in known:
                known.add(sig)   # go on under the named deviation: every other loss must still be reported
                continue
            # not a named deviation: mask exactly this law (group|detail) and go on, so that every other broken law
            # (e.g. the second export next to the re-imported state) is reported as well
            mask = "%s|%s" % (group, detail)
            if mask in known or len(v.violations) >= 10:
                incomplete = True
                break
            known.add(mask)
            masked.add(mask)
        else:
            raise Infra("trace validation did not converge in 12 rounds")
        v.cov["states"] += states
        v.cov["transitions"] += states
        v.cov["traces_validated_against_impl"] = cov_total.get("roundtrips", 0)
        v.cov["evaluations"] = nrec
        v.cov["distinct_nontrivial"] = sum(cov_total.get(k, 0) for k in ("with.contract-storage",))
        v.cov["classes"] = cov_total
        v.cov["history_ops"] = {k[5:]: n for k, n in stats.items() if k.startswith("hist.")}
        v.cov["deviations_needed"] = sorted(used)
        v.cov["rule"] = ("seeded histories of %d generator steps (contract deployments with constructor storage incl. slots set back to zero and empty "
                         "runtime code, calls that set / zero / delete slots and self-destruct, message-deployed ERC-20 and staking precompiles, "
                         "approvals through an ERC-20 precompile, ownership proofs, governance changes of evm / feemarket / cpc params, disabled flags, "
                         "fractional min gas prices below and above the base fee, full and empty blocks and 0-24 idle blocks before an export moving the base fee "
                         "up, down and onto its floor; genesis contracts with zero-valued and code-less storage), a round trip every %d "
                         "steps; non-trivial = round-trip records whose state holds contract storage; classes count the records holding each kind of content"
                         % (sz["blocks"], sz["every"]))
        v.cov["samples"] = [json.loads(x).get("hist") for x in lines if '"ev":"RoundTrip"' in x][:3]
        # binding self-test under the deviations found (so that only the corrupted field can be the reason)
        tests = []
        try:
            cands = [t for t in traces if any('"failed":"none"' in x for x in t)]
            corr = None
            for t in cands[:20]:
                try:
                    corr = c18_corruptions(t)
                    break
                except Infra:
                    continue
            if corr is None:
                raise Infra("self-test: no round-trip record with contract storage to corrupt")
            for what, bad in corr:
                rs = validate_lines(w, "selftest%d" % len(tests), "TraceGenesis", c18_cfg(known - masked), bad)
                if rs["err"] is None:
                    raise Infra("binding self-test failed (binding vacuous): corrupted %s was accepted" % what)
                tests.append("%s -> %s/%s" % (what, rs["err"][1], rs["err"][2]))
                log("binding self-test: corrupted %s rejected with %s/%s" % (what, rs["err"][1], rs["err"][2]))
        except Infra as ex:
            if not [x for x in v.violations if not x[0].startswith("Export/")]:
                raise
            log("binding self-test skipped on a tree that already breaks other laws: %s" % ex)
        v.cov["selftest"] = tests
        need = ["with.contract-storage", "with.zero-valued-slots", "with.codeless-storage", "with.erc20-precompiles", "with.allowances", "with.proofs",
                "with.basefee-on-floor-of-fractional-min-gas-price"]
        missing = [k for k in need if not cov_total.get(k)]
        if masked:
            v.cov["note"] = "laws %s were masked after their first report; the counts are of records accepted under that mask" % sorted(masked)
        if incomplete:
            v.cov["note"] = "validation stopped early; coverage numbers are partial"
        elif missing:
            raise Infra("conformance run vacuous: content classes never seen: %s" % missing)
        v.assumptions = ["block hashes of the old chain (BLOCKHASH) and transient stores are not part of the compared observation",
                         "the second export of the re-imported state is taken with the modules' ExportGenesis functions on the InitChain state "
                         "(ExportAppStateAndValidators needs a commit); the full export is compared after one identical empty block on both chains",
                         "256-bit values are compared as tokens", "disabled flags are set through the keeper (no message exists)"]
        return v.finish()
    finally:
        w.cleanup()
