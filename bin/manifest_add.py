#!/usr/bin/env python3
"""manifest_add.py <pid> <engine-kind> <text> <note> <technique> [design-ref]  — (re)register one check in MANIFEST.json."""
import json
import sys

pid, text, note, tech = sys.argv[1], sys.argv[2], sys.argv[3], sys.argv[4]
ref = sys.argv[5] if len(sys.argv) > 5 else "DESIGN.md section 3 (%s), section 2" % pid
p = "/verif/MANIFEST.json"
m = json.load(open(p))
m["checks"] = [c for c in m["checks"] if c["property_id"] != pid]
m["checks"].append({"property_id": pid, "quick_cmd": "bin/check %s --tier quick" % pid, "thorough_cmd": "bin/check %s --tier thorough" % pid,
                    "evidence_file": "/verif/evidence/%s.json" % pid, "replay_cmd_template": "bin/check %s --replay {path}" % pid,
                    "engine": "TLC trace validation + exhaustive design runs",
                    "level_claimed": {"category": "model_checking", "text": text, "design_ref": ref},
                    "level_note": note, "technique": tech})
m["checks"].sort(key=lambda c: c["property_id"])
m["not_applicable"] = [n for n in m.get("not_applicable", []) if n["property_id"] != pid]
for e in m["engines"]:
    if pid not in e["serves_properties"]:
        e["serves_properties"].append(pid)
        e["serves_properties"].sort()
json.dump(m, open(p, "w"), indent=1)
print("registered", pid)
