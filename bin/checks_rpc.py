"""C14 (transaction indexer and JSON-RPC views agree with consensus results): Indexer.tla.

Design level: Indexer_mc (exhaustive: every chain within small bounds, every crash point between two
physical writes, re-indexing in any order), a liveness run, and two documentation runs that must FAIL
(the named deviation enabled; a non-atomic indexer).
Binding (harness/rpc, binary vh_rpc): real blocks + real FinalizeBlock results recorded from a harness chain;
  B1/B2  the real EVMIndexerService + KVIndexer over a crash-injecting database wrapper, every crash point
         (quick: a sample per chain), restart, catch-up, dump; IndexBlock twice / backwards / shuffled;
  B3     the real rpc/backend over a CometBFT client stub and the real app's query services, every query of
         the property's observation points for every tx hash / block / index incl. unknown ones;
everything logged to one ndjson trace that TraceIndexer.tla validates line by line (TLC is the judge)."""
import concurrent.futures
import json
import os
import re
import shutil

import vlib
from vlib import Infra, Verdict, Work, log, register

FOCUS = ["Converges", "LookupAgree", "Idempotent", "Binding", "RpcTx", "RpcReceipt", "RpcBlock", "RpcLogs", "RpcUnknown", "RpcError"]

# named deviations of TraceIndexer.tla / Indexer.tla (DESIGN.md 2.7): signature -> what it states
DEVIATIONS = {
    "Converges/empty-index-restart-skips-to-latest":
        "EVMIndexerService.OnStart treats an empty index as 'start at the current height' also on a restart: a crash before the first "
        "flushed batch (or while only blocks without Ethereum txs were indexed) makes the blocks committed so far never indexed",
    "Converges/pruned-restart-skips-earliest-available-block":
        "EVMIndexerService.OnStart: when the last indexed block is below the node's earliest available block the service continues "
        "after the earliest available block, not with it: that block is never indexed",
    "RpcReceipt/synthetic-cumulativeGasUsed-counts-refused-txs":
        "GetTransactionReceipt's synthetic receipt (tx failed outside the VM) adds the gas limit of refused (dropped / ante-rejected) "
        "Ethereum txs in front of it to cumulativeGasUsed; consensus and eth_getBlockBy* do not count them",
}

SIZES = {
    "quick": dict(chains=30, blocks=5, maxtxs=4, allcrash=False, sample=14, double=2, big=1, bigmin=44, bigmax=60,
                  mc=["Indexer_mc.cfg", "Indexer_mc_b.cfg"]),
    "thorough": dict(chains=120, blocks=8, maxtxs=5, allcrash=True, sample=0, double=5, big=4, bigmin=40, bigmax=80,
                     mc=["Indexer_mc.cfg", "Indexer_mc_b.cfg", "Indexer_mc_thorough.cfg", "Indexer_mc_thorough_b.cfg", "Indexer_mc_thorough_c.cfg"]),
}

WITNESSES = ["W_CrashWithOpenBatch", "W_CaughtUpAfterCrash", "W_FailedIndexed", "W_Reindexed", "W_RefusedBeforeAdmitted"]

ERR_RE = re.compile(r'<<\s*"LAWBROKEN",\s*(\d+),\s*"([^"]*)",\s*"([^"]*)"\s*>>')
COV_RE = re.compile(r'<<\s*"COVERAGE",\s*"(\{.*?\})",\s*(\d+),\s*"SKIPPED",\s*(<<.*?>>)\s*>>\s*\n\s*<<\s*"DEVIATIONS"', re.S)
DEV_RE = re.compile(r'<<\s*"DEVIATIONS",\s*\{(.*?)\}\s*>>', re.S)


def extra_known():
    """Development aid: VERIF_ASSUME_KNOWN=sig1,sig2 treats these signatures as if they were listed in KNOWN_FINDINGS.txt
    (to rehearse the run after the coordinator has added the proposed lines). Never set by bin/check itself."""
    v = os.environ.get("VERIF_ASSUME_KNOWN", "")
    return [x for x in v.split(",") if x]


def cfg_text(known, focus=FOCUS):
    q = lambda xs: "{" + ", ".join('"%s"' % x for x in xs) + "}"
    return ("SPECIFICATION TraceSpec\nCONSTANTS\n  BlockChoices <- TrBlocks\n  MaxLen = 0\n  Starts = {}\n  MaxCrashes = 0\n"
            "  Atomic = TRUE\n  AllowReindex = FALSE\n  Known = %s\n  Focus = %s\nINVARIANT Coverage\nPOSTCONDITION TraceAccepted\n"
            "CHECK_DEADLOCK FALSE\n" % (q(sorted(known)), q(focus)))


def validate(d, lines, known, timeout=3000):
    """Run TraceIndexer over lines. -> dict(accepted, err, coverage, seen, used, states, out)."""
    os.makedirs(d, exist_ok=True)
    with open(os.path.join(d, "trace.ndjson"), "w") as f:
        f.write("\n".join(lines) + "\n")
    vlib.stage_spec(d)
    with open(os.path.join(d, "TraceIndexer_run.cfg"), "w") as f:
        f.write(cfg_text(known))
    r = vlib.tlc(d, "TraceIndexer", "TraceIndexer_run.cfg", workers=1, timeout=timeout)
    out = r["out"]
    res = {"states": r["generated"], "out": out, "err": None, "coverage": {}, "seen": [], "used": []}
    m = ERR_RE.findall(out)
    if m:
        res["err"] = (int(m[-1][0]), m[-1][1], m[-1][2])
    c = COV_RE.findall(out)
    if c:
        res["coverage"] = json.loads(c[-1][0].replace('\\"', '"'))
        res["seen"] = re.findall(r'<<\s*(\d+),\s*"([^"]*)",\s*"([^"]*)"\s*>>', c[-1][2])
    dv = DEV_RE.findall(out)
    if dv:
        res["used"] = re.findall(r'"([^"]*)"', dv[-1])
    res["accepted"] = r["ok"] and not m
    if not res["accepted"] and not m:
        raise Infra("trace rejected without a named law:\n" + out[-4000:])
    if res["accepted"] and not c:
        raise Infra("trace accepted but no coverage line:\n" + out[-3000:])
    return res


def chain_span(lines, lineno):
    """(first, last) 0-based indices of the chain (Chain line .. before the next Chain line) containing 1-based lineno."""
    return vlib.trace_of_line(lines, lineno, start_ev="Chain")


def replay_lines(lines, lineno):
    """The smallest self-contained trace around the offending line: its Chain line + its schedule, or + the Rpc line."""
    a, b = chain_span(lines, lineno)
    i = lineno - 1
    if '"ev":"Rpc"' in lines[i]:
        return [lines[a], lines[i]], 2
    s = i
    while s > a and '"ev":"Sched"' not in lines[s]:
        s -= 1
    e = i
    while e < b and '"ev":"Compare"' not in lines[e]:
        e += 1
    return [lines[a]] + lines[s:e + 1], 2 + (i - s)


def run_design(v, w, tier):
    d = w.sub("mc")
    vlib.stage_spec(d)
    # vacuity guards: each witness invariant must be violated (= the situation is reachable in the bounded model)
    with open(os.path.join(d, "Indexer_mc_witness.cfg")) as f:
        wit = f.read()

    def one(name):
        dd = w.sub("wit_" + name)
        vlib.stage_spec(dd)
        with open(os.path.join(dd, "w.cfg"), "w") as f:
            f.write(wit.replace("WITNESS", name))
        return name, vlib.tlc(dd, "Indexer_mc", "w.cfg", workers=2, timeout=900)

    with concurrent.futures.ThreadPoolExecutor(max_workers=5) as ex:
        for name, r in ex.map(one, WITNESSES):
            if not r["violated"]:
                raise Infra("design model Indexer_mc is vacuous: witness %s is unreachable" % name)
    # documentation runs that must fail: the model is faithful to the deviation / depends on the atomic batch
    for cfg, what in (("Indexer_mc_dev.cfg", "ConvergesStrict with deviation D21 enabled"), ("Indexer_mc_nonatomic.cfg", "Converges with a non-atomic indexer")):
        r = vlib.tlc(d, "Indexer_mc", cfg, workers=4, timeout=900)
        if not r["violated"]:
            raise Infra("design model: %s should be violated but holds (%s)" % (what, cfg))
        log("design run %s: counterexample found as expected (%s)" % (cfg, what))
    r = vlib.tlc(d, "Indexer_mc", "Indexer_mc_live.cfg", workers=8, timeout=1800)
    if r["violated"]:
        raise Infra("design model Indexer_mc violates EventuallyCaughtUp (specification bug):\n" + r["out"][-3000:])
    v.add_mc(r)
    log("design run Indexer_mc_live.cfg: %d distinct states, EventuallyCaughtUp holds" % r["distinct"])
    for cfg in SIZES[tier]["mc"]:
        r = vlib.tlc(d, "Indexer_mc", cfg, workers=16, timeout=7000)
        if r["violated"]:
            raise Infra("design model Indexer_mc/%s violates a law (specification bug):\n%s" % (cfg, r["out"][-3000:]))
        v.add_mc(r)
        log("design run Indexer_mc/%s: %d distinct states, %d transitions; Converges LookupAgree Complete Idempotent hold"
            % (cfg, r["distinct"], r["generated"]))


def self_test(w, lines):
    """Corrupt (1) one recorded RPC field and (2) one index entry (write + dumps, as a wrong indexer would) -> both rejected."""
    # first chain with an executed Ethereum tx
    start = None
    for i, ln in enumerate(lines):
        if '"ev":"Chain"' in ln and '"cls":"ok"' in ln:
            start = i
            break
    if start is None:
        raise Infra("self-test: no chain with an executed Ethereum tx")
    a, b = chain_span(lines, start + 1)
    sub = lines[a:b + 1]
    # keep the chain line, the first (uninterrupted) schedule and the RPC lines
    first_cmp = next(i for i, ln in enumerate(sub) if '"ev":"Compare"' in ln)
    small = sub[:first_cmp + 1] + [ln for ln in sub if '"ev":"Rpc"' in ln]
    base = validate(w.sub("self0"), small, DEVIATIONS.keys())
    if not base["accepted"]:
        return None, base["err"]
    out = []
    # (1) RPC field
    bad = list(small)
    for i, ln in enumerate(bad):
        e = json.loads(ln)
        if e["ev"] == "Rpc" and e["m"] == "receipt" and e["res"]["k"] == "val" and e["indexed"]:
            e["res"]["v"]["status"] = 1 - e["res"]["v"]["status"]
            bad[i] = json.dumps(e)
            break
    else:
        raise Infra("self-test: no receipt to corrupt")
    r = validate(w.sub("self1"), bad, DEVIATIONS.keys())
    if r["accepted"]:
        raise Infra("binding vacuous: a trace with a corrupted RPC receipt status (line %d) was accepted" % (i + 1))
    out.append("corrupted receipt status at line %d rejected by %s/%s" % (i + 1, r["err"][1], r["err"][2]))
    # (2) index entry: the write and every later dump, consistently (what a defective indexer would produce)
    bad = list(small)
    target = None
    for i, ln in enumerate(bad):
        e = json.loads(ln)
        if e["ev"] == "PhysWrite" and e["w"]["fam"] == "H" and target is None:
            target = e["w"]["hash"]
            e["w"]["v"]["failed"] = not e["w"]["v"]["failed"]
            bad[i] = json.dumps(e)
        elif e["ev"] == "Kv" and target is not None:
            for x in e["dump"]:
                if x["fam"] == "H" and x["hash"] == target:
                    x["v"]["failed"] = not x["v"]["failed"]
            bad[i] = json.dumps(e)
    if target is None:
        raise Infra("self-test: no index write to corrupt")
    r = validate(w.sub("self2"), bad, DEVIATIONS.keys())
    if r["accepted"]:
        raise Infra("binding vacuous: a trace with a corrupted index entry (%s) was accepted" % target)
    if r["err"][1] == "Binding":
        raise Infra("self-test: corrupted index entry was noticed only as a model/database mismatch")
    out.append("corrupted index entry %s (failed flag) rejected by %s/%s" % (target, r["err"][1], r["err"][2]))
    return out, None


def do_replay(pid, w, replay):
    d = w.sub("replay")
    lines = vlib.read_lines(os.path.join(replay, "trace.ndjson"))
    r = validate(d, lines, [])
    if r["err"]:
        log("replay: rejected at line %d: %s / %s" % r["err"])
        log("VIOLATION property=%s replay=%s" % (pid, replay))
        return 1
    log("replay: accepted")
    return 0


@register("C14")
def check_c14(pid, tier, seed, replay):
    v = Verdict(pid, tier, seed)
    w = Work(pid)
    try:
        if replay:
            return do_replay(pid, w, replay)
        ek = extra_known()
        if ek:
            orig = vlib.known_findings
            vlib.known_findings = lambda: {**orig(), pid: {**orig().get(pid, {}), **{s: "(assumed known through VERIF_ASSUME_KNOWN) " + DEVIATIONS.get(s, "") for s in ek}}}
        vlib.build("vh_rpc")
        if os.environ.get("VERIF_C14_SKIP_DESIGN"):
            log("development aid: design runs skipped (VERIF_C14_SKIP_DESIGN)")
        else:
            run_design(v, w, tier)
        sz = SIZES[tier]
        d = w.sub("traces")
        args = ["c14", "-seed", str(seed), "-chains", str(sz["chains"]), "-blocks", str(sz["blocks"]), "-maxtxs", str(sz["maxtxs"]),
                "-sample", str(sz["sample"]), "-double", str(sz["double"]), "-big", str(sz["big"]), "-bigmin", str(sz["bigmin"]),
                "-bigmax", str(sz["bigmax"]), "-out", d]
        if sz["allcrash"]:
            args.append("-allcrash")
        vlib.vh(args, cmd="vh_rpc")
        with open(os.path.join(d, "stats.json")) as f:
            stats = json.load(f)
        lines = vlib.read_lines(os.path.join(d, "trace.ndjson"))
        if len(stats.get("bigBlocks") or []) < sz["big"]:
            raise Infra("the driver recorded %s big blocks, %d wanted" % (stats.get("bigBlocks"), sz["big"]))
        if not stats.get("ownGasBeforeEth"):
            raise Infra("no recorded block has an executed Ethereum tx behind a non-Ethereum tx that ran out of its own gas limit (code 11)")
        log("executed Ethereum txs behind a Cosmos-lane tx failing with code 11 from its own gas limit (no block gas overflow): %d" % stats["ownGasBeforeEth"])
        log("big blocks (Ethereum txs): %s; every crash point inside them: %d schedules" % (stats["bigBlocks"], stats["bigCrashPoints"]))
        log("recorded %d chains, %d blocks, %d Ethereum txs; %d schedules (%d crashes) and %d RPC queries; %d events" % (
            stats["chains"], stats["blocks"], stats["ethTxs"], stats["schedules"], stats["crashes"], stats["rpcQueries"], stats["events"]))

        remaining = lines
        enabled = set()
        final = None
        states = 0
        cut_chains = 0
        for rnd in range(12):
            r = validate(w.sub("val%d" % rnd), remaining, enabled)
            states += r["states"]
            if r["accepted"]:
                final = r
                break
            line, group, detail = r["err"]
            sig = "%s/%s" % (group, detail)
            if group == "Binding":
                raise Infra("the model of the database / the trace vocabulary disagrees with the recorded run at line %d (%s):\n%s"
                            % (line, detail, remaining[line - 1][:600]))
            rl, at = replay_lines(remaining, line)
            tid = json.loads(remaining[chain_span(remaining, line)[0]]).get("tid", "chain")
            rp = vlib.save_replay(pid, "%s-%s" % (tid, re.sub(r"[^A-Za-z0-9]+", "_", detail)[:50]), [(rl, "trace.ndjson")],
                                  "law %s broken at line %d of this trace (seed %d, tier %s); re-check: bin/check %s --replay <this dir>\n%s"
                                  % (sig, at, seed, tier, pid, DEVIATIONS.get(sig, "")))
            with open(os.path.join(rp, "tlc.out"), "w") as f:
                f.write(r["out"][-20000:])
            v.violation(sig, rp, "chain %s: %s" % (tid, remaining[line - 1][:300]))
            if sig in DEVIATIONS and sig not in enabled:
                # a named deviation: enable exactly this behaviour and go on, so that everything else is still judged
                enabled.add(sig)
                log("deviation %s reproduced on the real code (line %d); enabled for the rest of the validation" % (sig, line))
                continue
            a, b = chain_span(remaining, line)
            remaining = remaining[:a] + remaining[b + 1:]
            cut_chains += 1
            if not any('"ev":"Chain"' in x for x in remaining) or cut_chains >= 3:
                break
        v.cov["states"] += states
        v.cov["transitions"] += states
        if final is not None:
            cov = final["coverage"]
            clean_sched = cov.get("schedules.clean", 0)
            clean_views = cov.get("views.clean", 0)
            v.cov["traces_validated_against_impl"] = clean_sched + clean_views
            v.cov["accepted_only_with_deviation"] = {"schedules": cov.get("schedules.dev", 0), "rpc_view_passes": cov.get("views.dev", 0),
                                                     "deviations_used": final["used"]}
            v.cov["evaluations"] = sum(n for k, n in cov.items() if k.startswith(("lookup.", "rpc.", "caught.")))
            v.cov["trace_counters"] = cov
            v.cov["observations_outside_the_property"] = sorted(set("%s/%s" % (g, dt) for _, g, dt in final["seen"]))
        v.cov["classes"] = stats["classes"]
        v.cov["distinct_nontrivial"] = len(stats["pairs"]) + len(stats["viewShapes"])
        v.cov["rule"] = ("distinct (outcome shape of the block being indexed when the process was killed, number of physical writes already "
                         "issued in its batch) pairs with >= 1 Ethereum tx in that block [%d], plus distinct block outcome shapes with >= 1 "
                         "admitted Ethereum tx whose every tx/receipt/block/log view was queried through the real backend [%d]"
                         % (len(stats["pairs"]), len(stats["viewShapes"])))
        v.cov["samples"] = stats["pairs"][:6] + stats["viewShapes"][:6]
        v.cov["exhaustive"] = False  # the space of chains is sampled; see next field
        v.cov["every_single_crash_point_of_every_recorded_chain"] = bool(sz["allcrash"])
        v.cov["eth_txs_behind_own_gas_code11_cosmos_tx"] = stats["ownGasBeforeEth"]
        v.cov["big_blocks"] = {"ethereum_txs": stats["bigBlocks"], "crash_points_all_enumerated": stats["bigCrashPoints"]}
        v.cov["schedules"] = {"total": stats["schedules"], "crashes": stats["crashes"], "go_side_mismatch_with_uninterrupted_run": stats["goMismatch"]}
        st, sterr = self_test(w, remaining if final is not None else lines)
        if st is None and not v.violations:
            raise Infra("self-test: the uncorrupted sub-trace is rejected: %s" % (sterr,))
        if st is None:
            log("binding self-test skipped: the sub-trace it would corrupt is itself rejected (%s/%s), see the violations" % (sterr[1], sterr[2]))
        for s in st or []:
            log("binding self-test: " + s)
            v.cov.setdefault("selftest", []).append(s)
        v.assumptions = [
            "crash model: the process dies between two physical database operations; a batch Write is atomic (cosmos-db MemDB applies it under "
            "the database lock; goleveldb/pebble batches are atomic as well); torn single writes and lost un-synced writes are the database's business",
            "blocks and results come from the harness chain driver (real FinalizeBlock on a MemDB app), served through a CometBFT client stub; "
            "CometBFT's own block store / event bus is not run",
            "numbers scaled below 2^31 (small-magnitude genesis)",
            "effectiveGasPrice of synthetic receipts, blockHash of eth_getLogs logs and panics on unknown keys are recorded as observations "
            "(not in the property's list of fields), see observations_outside_the_property",
        ]
        return v.finish()
    finally:
        w.cleanup()
