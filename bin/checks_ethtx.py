"""C04 C05 C06 C13 (and the transaction-level parts of C03 C15 C09 C20): EthTx.tla.

Design level: EthTx_mc (exhaustive, small constants).  Binding: seeded histories against the
real application, validated line by line by TraceEthTx.tla with the property's laws in Focus."""
import json
import os

import vlib
from vlib import Infra, Verdict, Work, log, register

# law groups of TraceEthTx.tla each property answers for
FOCUS = {
    "C04": ["Supply", "Fee", "EvmModule", "Bal", "Bal2"],
    "C05": ["GasBounds", "Refund", "ReceiptGas", "EffPrice", "Cumulative", "CoreGas", "Bal", "Admit"],
    "C06": ["Seq", "Admit", "Cosmos"],
    "C13": ["TxIndex", "ReceiptStatus", "Cumulative", "Logs", "LogIndex", "Contract", "Bloom", "BlockBloom"],
}

MC_INVARIANTS = {
    "C04": ["SupplyLaw", "ConservationInv", "EvmModuleEmptyInv", "FeeLaw"],
    "C05": ["ChargeLaw", "GasBoundsInv", "RejectedChangesNothing", "CumulativeInv"],
    "C06": ["NoReplay", "NonceMatches"],
    "C13": ["IndicesInv", "CumulativeInv", "ReceiptsExist"],
}

SIZES = {"quick": dict(traces=40, blocks=8), "thorough": dict(traces=1500, blocks=8)}


def cfg_text(focus):
    return ("SPECIFICATION TraceSpec\nCONSTANT Programs <- TracePrograms\nCONSTANT Focus = {%s}\n"
            "INVARIANT Coverage\nPOSTCONDITION TraceAccepted\nCHECK_DEADLOCK FALSE\n"
            % ", ".join('"%s"' % g for g in focus))


def corrupt(pid, lines):
    """Binding self-test: change one recorded field the property's laws depend on."""
    out = list(lines)
    for i, ln in enumerate(out):
        e = json.loads(ln)
        if pid == "C04" and e["ev"] == "State":
            e["supply"] += 1
        elif pid == "C06" and e["ev"] == "State":
            e["accts"]["a0"]["seq"] += 1
        elif pid == "C05" and e["ev"] == "Eth" and e["r"].get("hasReceipt"):
            e["o"]["gasBeforeRefund"] += 7
            e["o"]["gasUsed"] += 0
        elif pid == "C13" and e["ev"] == "Eth" and e["r"].get("hasReceipt"):
            e["r"]["receipt"]["txIdx"] += 1
        else:
            continue
        out[i] = json.dumps(e)
        return out, i + 1
    raise Infra("self-test: nothing to corrupt in the first trace")


def validate_dir(d, focus):
    return vlib.validate_trace(d, "TraceEthTx", cfg_text(focus))


def run_mc(v, pid, w, tier):
    d = w.sub("mc")
    vlib.stage_spec(d)
    # vacuity guard: every exit class, a burn and a creation are reachable in the bounded model
    r = vlib.tlc(d, "EthTx_mc", "EthTx_mc_witness.cfg", workers=1, timeout=900)
    if r["violated"]:
        raise Infra("design model EthTx_mc is vacuous for some exit class:\n" + r["out"][-1500:])
    cfg = "EthTx_mc.cfg" if tier == "quick" else "EthTx_mc_thorough.cfg"
    r = vlib.tlc(d, "EthTx_mc", cfg, workers=16, timeout=6000)
    v.add_mc(r)
    if r["violated"]:
        # a design-level counterexample is not a verdict about the code
        raise Infra("design model EthTx_mc violates a law (specification bug):\n" + r["out"][-3000:])
    log("design run EthTx_mc/%s: %d distinct states, %d transitions, all laws hold" % (cfg, r["distinct"], r["generated"]))


def _split_traces(lines):
    out, cur = [], []
    for ln in lines:
        if '"ev":"Genesis"' in ln and cur:
            out.append(cur)
            cur = []
        cur.append(ln)
    if cur:
        out.append(cur)
    return out


def _write_chunk(dd, traces, programs):
    """A chunk directory holds its traces and ONLY their programs (validation time grows with the size of the program table)."""
    with open(os.path.join(dd, "trace.ndjson"), "w") as f:
        f.write("\n".join(ln for t in traces for ln in t) + "\n")
    tids = [json.loads(t[0]).get("tid", "") + "_" for t in traces]
    sub = {k: pv for k, pv in programs.items() if any(k.startswith(x) for x in tids)}
    with open(os.path.join(dd, "programs.json"), "w") as f:
        json.dump(sub, f)


def ethtx_binding(v, pid, w, focus, sz, seed, corrupt_fn=None, tag="", chunk=30):
    """Seeded histories of the real application validated by TraceEthTx.tla with the given law groups in Focus.
    Adds to the verdict v (violations, coverage). corrupt_fn(pid, lines) -> (lines, lineno) drives the binding self-test."""
    import concurrent.futures
    d = w.sub("traces" + tag)
    vlib.vh(["ethtx", "-seed", str(seed), "-traces", str(sz["traces"]), "-blocks", str(sz["blocks"]), "-out", d], timeout=7000)
    lines = vlib.read_lines(os.path.join(d, "trace.ndjson"))
    with open(os.path.join(d, "programs.json")) as f:
        programs = json.load(f)
    traces = _split_traces(lines)
    ntraces = len(traces)
    cov_total = {}
    chunks = [traces[i:i + chunk] for i in range(0, ntraces, chunk)]

    def run_chunk(args):
        ci, part = args
        res = dict(states=0, cov={}, skipped=[], viol=[], rejected=0)
        rounds = 0
        while part and rounds < 4:
            rounds += 1
            dd = w.sub("val%s_%d_%d" % (tag, ci, rounds))
            _write_chunk(dd, part, programs)
            r = validate_dir(dd, focus)
            res["states"] += r["states"]
            if r["err"] is None:
                res["cov"] = r["coverage"]
                res["skipped"] = ["%s/%s" % (g, dt) for _, g, dt in r["skipped"]][:20]
                break
            line, group, detail = r["err"]
            n = 0
            for ti, t in enumerate(part):
                if line <= n + len(t):
                    break
                n += len(t)
            res["viol"].append((group, detail, part[ti], line - n, r["out"][-20000:]))
            res["rejected"] += 1
            part = part[:ti] + part[ti + 1:]
        return res

    states = 0
    rejected_traces = 0
    seen_sigs = set()
    with concurrent.futures.ThreadPoolExecutor(max_workers=6) as ex:
        for res in ex.map(run_chunk, list(enumerate(chunks))):
            states += res["states"]
            rejected_traces += res["rejected"]
            for k, n in res["cov"].items():
                cov_total[k] = cov_total.get(k, 0) + n
            v.cov.setdefault("skipped_out_of_focus", []).extend(res["skipped"])
            for group, detail, bad, at, out in res["viol"]:
                sig = "%s/%s" % (group, detail)
                if sig in seen_sigs and len(v.violations) >= 4:
                    continue  # the same law again: enough replays saved
                seen_sigs.add(sig)
                tid = json.loads(bad[0]).get("tid", "trace")
                _write_prog = {k: pv for k, pv in programs.items() if k.startswith(tid + "_")}
                rp = vlib.save_replay(pid, tid, [(bad, "trace.ndjson"), ([json.dumps(_write_prog)], "programs.json")],
                                      "law %s broken at line %d of this trace (seed %d); re-check: bin/check %s --replay <this dir>" % (sig, at, seed, pid))
                with open(os.path.join(rp, "tlc.out"), "w") as f:
                    f.write(out)
                v.violation(sig, rp, "trace %s line %d: %s" % (tid, at, bad[at - 1][:300]))
    v.cov["skipped_out_of_focus"] = v.cov.get("skipped_out_of_focus", [])[:20]
    v.cov["states"] += states
    v.cov["transitions"] += states
    v.cov["traces_validated_against_impl"] += ntraces - rejected_traces
    v.cov["evaluations"] += ntraces
    a, b = vlib.trace_of_line(lines, 1)
    first = lines[a:b + 1]
    if corrupt_fn is None:
        return cov_total, first
    # binding self-test on the first trace that has something to corrupt
    bad, at, pos = None, 0, 0
    while pos < len(lines) and bad is None:
        a2, b2 = vlib.trace_of_line(lines, pos + 1)
        try:
            bad, at = corrupt_fn(pid, lines[a2:b2 + 1])
        except Infra:
            bad = None
        pos = b2 + 1
    if bad is None:
        raise Infra("self-test: nothing to corrupt in any trace")
    ds = w.sub("selftest" + tag)
    _write_chunk(ds, [bad], programs)
    rs = validate_dir(ds, focus)
    if rs["err"] is None:
        raise Infra("binding self-test failed: a trace with a corrupted field (line %d) was accepted" % at)
    log("binding self-test: corrupted line %d rejected with %s/%s" % (at, rs["err"][1], rs["err"][2]))
    v.cov["selftest"] = "corrupted line %d of the first trace rejected by law %s/%s" % (at, rs["err"][1], rs["err"][2])
    return cov_total, first


def c06_lane_vectors(v, w, tier, pid):
    """C06 relies on lane isolation: an Ethereum message that reaches the EVM handler through the Cosmos lane (listed beside other
    messages, nested in authz exec at any depth) skips every check of the Ethereum lane (replay protection, signature = sender,
    nonce).  The shapes of Lanes.tla that contain an Ethereum message outside the Ethereum lane (TLC enumerates them) are built as
    real transactions, run through the real application and judged by TraceLanes.tla: all must be refused."""
    import re
    import checks_lanes
    vlib.build("vh_lanes")
    d = w.sub("lanes-mc")
    vlib.stage_spec(d)
    r = vlib.tlc(d, "Lanes_mc", "Lanes_mc.cfg", workers=1, timeout=3000)
    if r["violated"]:
        raise Infra("design model Lanes_mc violates its own laws:\n" + r["out"][-2000:])
    v.add_mc(r)
    allv = [json.loads(x) for x in vlib.read_lines(os.path.join(d, "vectors.ndjson"))]

    def has_eth(sh):
        return any("eth" in m.get("leaf", []) for m in sh.get("msgs", []))
    pick = [x for x in allv if has_eth(x["shape"]) and x["expect"]["lane"] != "eth" and x["shape"]["mode"] in ("deliver", "check")]
    controls = [x for x in allv if x["expect"]["lane"] == "eth" and x["expect"]["verdict"] == "accept" and x["shape"]["mode"] == "deliver"][:40]
    cap = 2500 if tier == "quick" else 100000
    step = max(1, len(pick) // cap)
    pick = pick[::step] + controls
    if len(pick) < 100:
        raise Infra("lane vectors: only %d shapes with an Ethereum message outside the Ethereum lane" % len(pick))
    for i, x in enumerate(pick):
        x["vec"] = i + 1
    vp = os.path.join(d, "c06-vectors.ndjson")
    with open(vp, "w") as f:
        f.write("\n".join(json.dumps(x) for x in pick) + "\n")
    lines = checks_lanes.lanes_run_vectors(w, vp, "lanes-run")
    errs, cov, rt = checks_lanes.lanes_validate(w, "lanes-val", lines)
    v.cov["states"] += rt["distinct"]
    v.cov["transitions"] += rt["generated"]
    by = {}
    for ln, g, dt in errs:
        by.setdefault("Lane%s/%s" % (g, dt), []).append(ln)
    for sig, lns in sorted(by.items()):
        bad = [lines[i - 1] for i in lns[:20]]
        ids = [json.loads(x).get("vec") for x in bad if '"ev":"Vector"' in x]
        vecs = [json.dumps(pick[i - 1]) for i in ids if i]
        rp = vlib.save_replay(pid, re.sub(r"[^A-Za-z0-9_.-]", "_", sig)[:80], [(vecs, "vectors.ndjson"), (bad, "trace.ndjson")],
                              "an Ethereum message outside the Ethereum lane was not refused: law %s, %d vectors" % (sig, len(lns)))
        v.violation(sig, rp, "%d vector(s), e.g. %s" % (len(lns), bad[0][:500]))
    nvec = sum(1 for x in lines if '"ev":"Vector"' in x)
    v.cov["traces_validated_against_impl"] += nvec - sum(1 for ln, g, dt in errs if '"ev":"Vector"' in lines[ln - 1])
    v.cov["evaluations"] += nvec
    log("lane vectors: %d shapes with an Ethereum message outside the Ethereum lane (+%d sole-eth controls) run in check / deliver mode, %d laws broken"
        % (len(pick) - len(controls), len(controls), len(by)))
    return {"lane.vectors": nvec}


@register("C04", "C05", "C06", "C13")
def check_ethtx(pid, tier, seed, replay):
    v = Verdict(pid, tier, seed)
    w = Work(pid)
    try:
        focus = FOCUS[pid]
        if replay and os.path.exists(os.path.join(replay, "kind.txt")) and open(os.path.join(replay, "kind.txt")).read().strip() == "bigcharge":
            # the recorded execution judged again (a sample is a fact about the tree it was recorded on)
            d = w.sub("bigreplay")
            vlib.stage_spec(d)
            samples = [json.loads(l) for l in open(os.path.join(replay, "samples.ndjson"))]
            if _big_judge(d, "CB_replay", samples) == "violated":
                log("VIOLATION property=%s replay=%s" % (pid, replay))
                return 1
            log("replay: accepted")
            return 0
        if replay and os.path.exists(os.path.join(replay, "kind.txt")):
            import checks_mempool
            r = checks_mempool.mempool_replay(w, replay)
            if r["err"]:
                log("VIOLATION property=%s replay=%s" % (pid, replay))
                return 1
            log("replay: accepted")
            return 0
        if replay and os.path.exists(os.path.join(replay, "vectors.ndjson")):
            import checks_lanes
            return checks_lanes.lanes_replay(pid, w, replay)
        if replay:
            r = validate_dir_copy(w, replay, focus)
            if r["err"]:
                log("replay: rejected at line %d: %s / %s" % r["err"])
                log("VIOLATION property=%s replay=%s" % (pid, replay))
                return 1
            log("replay: accepted")
            return 0
        vlib.build("vh")
        run_mc(v, pid, w, tier)
        cov_total, first = ethtx_binding(v, pid, w, focus, SIZES[tier], seed, corrupt_fn=corrupt)
        nontrivial = sum(n for k, n in cov_total.items() if k.startswith("eth.") and k not in ("eth.ante", "eth.dropped"))
        v.cov["distinct_nontrivial"] = nontrivial
        v.cov["classes"] = cov_total
        v.cov["rule"] = ("seeded random block histories (0-4 txs per block; transfers, calls into a menu of contracts with nested "
                         "frames, creations, invalid txs, Cosmos sends) run through the real FinalizeBlock/Commit; non-trivial = "
                         "Ethereum txs that passed admission (counted per outcome class by the trace specification)")
        v.cov["samples"] = [json.loads(x) for x in first[2:5]]
        if pid == "C06":
            v.cov["classes"].update(c06_lane_vectors(v, w, tier, pid))
        if pid in ("C04", "C05"):
            big_charge(v, pid, w, tier, seed)   # C05: the charge; C04: supply unchanged, receiver gains exactly the value moved
        if pid in ("C05", "C06"):
            import checks_mempool
            v.cov["classes"].update(checks_mempool.mempool_binding(v, pid, w, tier, seed))
        v.assumptions = ["gas used, gas before refund and frame exit statuses are observed (hook H1), not modelled",
                         "numbers scaled below 2^31 (small-magnitude genesis)", "go-ethereum interpreter trusted"]
        if not vlib.known_findings().get(pid) and v.violations:
            pass
        return v.finish()
    finally:
        w.cleanup()


# ---------------------------------------------------------------------------------------------
# C05 at real-world magnitudes: executions of the real application judged by Apalache (spec/ChargeBig.tla)
# ---------------------------------------------------------------------------------------------
BIG_SIZES = {"quick": 40, "thorough": 400}


def _big_module(path, name, samples):
    facts = ["ChargeOk(%d, %s, %s, %s, %s, %s, %s, %s, %s, %s, %s)" % (s["typ"], s["price"], s["tip"], s["baseFee"], s["gasLimit"], s["gasUsed"],
                                                                      s["moved"], s["before"], s["after"], s["recvDelta"], s["supplyDelta"]) for s in samples]
    with open(path, "w") as f:
        f.write("---- MODULE %s ----\nEXTENDS ChargeBig\nSamplesOk ==\n  /\\ %s\n====\n" % (name, "\n  /\\ ".join(facts) if facts else "TRUE"))


def _big_judge(d, name, samples):
    _big_module(os.path.join(d, name + ".tla"), name, samples)
    res, _ = vlib.apalache(d, name, "SamplesOk", timeout=1200, tag="apa-" + name)
    return res


def big_charge(v, pid, w, tier, seed):
    """Executed transactions at magnitudes beyond TLC's integers; returns number of violations reported."""
    d = w.sub("bigcharge")
    vlib.stage_spec(d)
    sp = os.path.join(d, "samples.ndjson")
    vlib.vh(["bigcharge", "-seed", str(seed), "-n", str(BIG_SIZES[tier]), "-out", sp], timeout=3000)
    samples = [json.loads(l) for l in open(sp)]
    if len(samples) < BIG_SIZES[tier] // 2:
        raise Infra("bigcharge: only %d executed samples" % len(samples))
    over = [s for s in samples if int(s["gasLimit"]) * int(s["price"]) >= 2 ** 64]
    if not over:
        raise Infra("bigcharge: no sample with a fee beyond 2^64")
    bad = []
    chunks = [samples[i:i + 100] for i in range(0, len(samples), 100)]
    for ci, ch in enumerate(chunks):
        if _big_judge(d, "CB_%d" % ci, ch) == "violated":
            for si, s in enumerate(ch):
                if len(bad) >= 3:
                    break
                if _big_judge(d, "CB_%d_%d" % (ci, si), [s]) == "violated":
                    bad.append(s)
    for i, s in enumerate(bad):
        rp = vlib.save_replay(pid, "bigcharge_%d_%d" % (seed, i), [([json.dumps(s)], "samples.ndjson"), (["bigcharge"], "kind.txt")],
                              "an executed Ethereum transaction at real-world magnitudes did not cost its sender gas used x effective price + value moved")
        v.violation("Charge/sender-pays-gas-used-times-effective-price-plus-value:big-magnitudes", rp, json.dumps(s)[:400])
    # self-test: one wei more must be refuted
    c = dict(samples[0])
    c["after"] = str(int(c["after"]) + 1)
    if not bad and _big_judge(d, "CB_self", [c]) != "violated":
        raise Infra("bigcharge binding vacuous: a corrupted sample is accepted")
    v.cov["evaluations"] += len(samples)
    v.cov["obligations"] = v.cov.get("obligations", 0) + len(samples)
    v.cov["discharged"] = v.cov.get("discharged", 0) + len(samples) - len(bad)
    log("big magnitudes: %d executed transactions (%d with fee >= 2^64) judged by Apalache against ChargeBig.tla, %d rejected" % (len(samples), len(over), len(bad)))
    return len(bad)


def validate_dir_copy(w, src, focus):
    import shutil
    d = w.sub("replay")
    for f in ("trace.ndjson", "programs.json"):
        shutil.copy(os.path.join(src, f), d)
    return validate_dir(d, focus)
