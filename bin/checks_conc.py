"""C20 clause (a): no interleaving of concurrent JSON-RPC requests, subscriptions and event deliveries
crashes, deadlocks or corrupts the node -- spec/FilterSystem.tla (PlusCal) bound to the real
pubsub bus, filters.EventSystem, filters.PublicFilterAPI and server.EVMIndexerService through hook H3.

check_c20 is a list of sub-checks that all feed one Verdict; clauses (b) (Begin/EndBlock never fail) and
(c) (a failing tx never alters the other txs' results) are bound by the EthTx / FeeMarket drivers and can be
appended to SUBCHECKS by the coordinator.

  design      exhaustive TLC runs of the property-respecting design (no deviation enabled)
  deviations  for each named deviation Dk: TLC's counterexample schedule, replayed 3x on the real code in a
              child process; the recorded trace is judged by TLC (TraceFilterSystem) -> reproduced / absent
  indexer     the same for the indexer service's quit re-broadcast (D27) + an ordering stress
  simulate    tlc -simulate behaviours (deviations that are present enabled) replayed on the real code,
              every recorded trace judged by TLC
  stress      free-running seeded stress of the real objects (also under -race), every trace judged by TLC
  selftest    swapped / dropped / altered trace lines must be rejected, a perturbed expectation must mismatch
"""
import concurrent.futures as cf
import hashlib
import itertools
import json
import os
import random
import re
import shutil
import subprocess
import time

import vlib
from vlib import Infra, Verdict, Work, log, register

ALL = ["D11", "D12", "D25", "D26", "D27"]
SIG = {
    "D11": "Schedule/send-on-closed-topic-channel-after-uninstall",
    "D12": "Schedule/stale-publishTopic-closes-reregistered-topic",
    "D25": "Schedule/joined-subscription-torn-down-by-installer-uninstall",
    "D26": "Schedule/pending-filter-consumer-spins-after-uninstall",
    "D27": "Schedule/indexer-quit-rebroadcast-blocks-OnStart",
}
TEXT = {
    "D11": "consumeEvents looks the topic channel up under indexMux.RLock but sends after RUnlock; an uninstall in between closes "
           "the channel: 'panic: send on closed channel' in a goroutine nobody recovers (node crash)",
    "D12": "a publishTopic goroutine whose source was closed by an uninstall runs closeAllSubscribers(name) / delete(topics, name) "
           "after the topic was registered again: the new subscribers' channels are closed, the new topic vanishes from the bus",
    "D25": "EventSystem.subscribe joins an existing topic without registering in es.index: when the subscription that installed "
           "the topic is uninstalled the topic is torn down under the joined ones (their filters silently disappear)",
    "D26": "the consumer goroutine of NewPendingTransactionFilter does not return after <-errCh: after UninstallFilter it spins "
           "forever taking filtersMu (one busy goroutine per uninstalled pending-transaction filter)",
    "D27": "EVMIndexerService: both loops answer Quit by sending into quitSignalReBroadcast (capacity 1); the second sender "
           "blocks for ever: OnStart never returns after Stop() (its deferred Unsubscribe never runs)",
}

BASE = dict(NTopics=1, NClients=2, Rounds=1, MaxEvents=1, MaxPolls=0, MaxTicks=0, MaxFires=0, Api="FALSE", Known="{}",
            SpinTopics="{}", BufCap=1, RespCap=1, WithIndexer="FALSE", MaxHeaders=0, TraceMode="FALSE", Foreign="FALSE")

SIZES = {
    "quick": dict(sim=20, stress=20, race=4, stress_events=8),
    "thorough": dict(sim=300, stress=200, race=24, stress_events=12),
}


def known_set(ks):
    return "{" + ", ".join('"%s"' % k for k in sorted(ks)) + "}"


def cfg(spec, consts, invs=(), props=(), deadlock=True, view=None, post=None):
    c = dict(BASE)
    c.update(consts)
    t = "SPECIFICATION %s\nCONSTANTS\n" % spec
    for k, v in c.items():
        t += "  %s = %s\n" % (k, v)
    if invs:
        t += "INVARIANTS " + " ".join(invs) + "\n"
    if props:
        t += "PROPERTIES " + " ".join(props) + "\n"
    if view:
        t += "VIEW %s\n" % view
    if post:
        t += "POSTCONDITION %s\n" % post
    t += "CHECK_DEADLOCK %s\n" % ("TRUE" if deadlock else "FALSE")
    return t


def write(path, text):
    with open(path, "w") as f:
        f.write(text)


# ------------------------------------------------------------------------------------------------ design runs

DESIGN_INVS = ["NoCrash", "NoLostTopic", "LockInv", "NoLeakedPublisher", "TopicAgreement", "IndexerInv", "NoDrainBlock", "NoDoubleUninstall"]


def design_configs(tier):
    q = [
        ("es-2c-1r-1e", dict(NClients=2, Rounds=1, MaxEvents=1), 16),
        ("es-1c-3r-1e", dict(NClients=1, Rounds=3, MaxEvents=1), 16),
        ("api-1c", dict(NClients=1, Rounds=1, MaxEvents=1, Api="TRUE", MaxPolls=1, MaxTicks=1, MaxFires=1, NTopics=2, SpinTopics="{2}"), 16),
        ("indexer", dict(NClients=0, MaxEvents=0, WithIndexer="TRUE", MaxHeaders=3), 16),
        # several clients, one filter id: each client may also uninstall the other's filter (uninstall x uninstall, x GetFilterChanges)
        ("api-2c-sameid", dict(NClients=2, Rounds=1, MaxEvents=0, Api="TRUE", MaxPolls=1, Foreign="TRUE"), 16),
    ]
    if tier == "thorough":
        q += [
            ("es-2c-1r-2e", dict(NClients=2, Rounds=1, MaxEvents=2), 16),
            ("es-1c-3r-2e", dict(NClients=1, Rounds=3, MaxEvents=2), 16),
            ("es-2c-1r-2t", dict(NClients=2, Rounds=1, MaxEvents=1, NTopics=2), 16),
            ("api-1c-2r", dict(NClients=1, Rounds=2, MaxEvents=0, Api="TRUE", MaxPolls=1, MaxTicks=1, MaxFires=1, NTopics=2, SpinTopics="{2}"), 16),
            ("es-3c-1r-1e", dict(NClients=3, Rounds=1, MaxEvents=1), 16),
            ("es-2c-2r-1e", dict(NClients=2, Rounds=2, MaxEvents=1), 16),
            ("api-2c", dict(NClients=2, Rounds=1, MaxEvents=0, Api="TRUE", MaxPolls=1, MaxTicks=1, MaxFires=1), 16),
            ("api-2c-sameid-expiry", dict(NClients=2, Rounds=1, MaxEvents=0, Api="TRUE", MaxPolls=1, MaxTicks=1, MaxFires=1, Foreign="TRUE"), 16),
        ]
    return q


COV_RE = re.compile(r"^<(\w+) line \d+, col \d+ to line \d+, col \d+ of module FilterSystem>: (\d+):(\d+)", re.M)


def sub_design(ctx):
    v, w, tier = ctx["v"], ctx["w"], ctx["tier"]
    d = w.sub("design")
    vlib.stage_spec(d)
    reached = {}
    runs = []
    for name, consts, workers in design_configs(tier):
        write(os.path.join(d, name + ".cfg"), cfg("MCSpec", consts, DESIGN_INVS))
        t0 = time.time()
        r = vlib.tlc(d, "FilterSystem", name + ".cfg", workers=workers, timeout=7200, extra=["-coverage", "1000"])
        if r["violated"] or "Deadlock reached" in r["out"]:
            raise Infra("the property-respecting design violates a property in %s (specification bug):\n%s" % (name, r["out"][-3000:]))
        v.add_mc(r)
        for lab, n, m in COV_RE.findall(r["out"]):
            reached[lab] = reached.get(lab, 0) + int(n) + int(m)
        runs.append("%s: %d distinct / %d generated, %.0fs" % (name, r["distinct"], r["generated"], time.time() - t0))
        log("design run %s: %d distinct states, %d transitions, all invariants + deadlock freedom hold (%.0fs)"
            % (name, r["distinct"], r["generated"], time.time() - t0))
    # liveness under weak fairness on the smallest instance of each layer
    for name, consts, props in [
        ("live-es", dict(NClients=1, Rounds=2, MaxEvents=1), ["EventuallyUninstalled", "UninstalledLeavesIndex"]),
        ("live-api", dict(NClients=1, Rounds=1, MaxEvents=1, Api="TRUE", MaxPolls=1, MaxTicks=1, MaxFires=1, NTopics=2, SpinTopics="{2}"),
         ["EventuallyUninstalled", "ConsumersTerminate"]),
        ("live-indexer", dict(NClients=0, MaxEvents=0, WithIndexer="TRUE", MaxHeaders=2), ["IndexerStops"]),
    ]:
        write(os.path.join(d, name + ".cfg"), cfg("MCFairSpec", consts, ["NoCrash"], props))
        r = vlib.tlc(d, "FilterSystem", name + ".cfg", workers=8, timeout=3600)
        if r["violated"] or "Temporal properties were violated" in r["out"]:
            raise Infra("the property-respecting design violates a liveness property in %s:\n%s" % (name, r["out"][-3000:]))
        v.add_mc(r)
        runs.append("%s (WF, %s): %d distinct" % (name, "+".join(props), r["distinct"]))
        log("design run %s: %s hold under weak fairness (%d distinct states)" % (name, ", ".join(props), r["distinct"]))
    # vacuity: every label of the design is taken in some configuration (deviation-only labels excepted)
    dead = [lab for lab, n in reached.items() if n == 0 and lab not in ("pt_del", "c_inst", "g_drain", "el_i_unlock0", "u_del", "xu_del")]
    never = [lab for lab in ("el_u_close", "ce_sent", "pt_closeall", "pt_chk", "co_err", "co_closed", "g_lock", "u_lock", "tl_sweep",
                             "ih_q", "im_q", "im_index") if reached.get(lab, 0) == 0]
    if dead or never:
        raise Infra("design runs are vacuous for labels %s" % sorted(set(dead + never)))
    ctx["cov"]["design_runs"] = runs


# ------------------------------------------------------------------------------------------------ children and the judge

def run_child(binp, plan, timeout=120, kind="run"):
    """Run one plan in a child process. Returns dict(rc, panic (message | None), stderr, result (dict | None))."""
    os.makedirs(plan["out"], exist_ok=True)
    pf = plan["out"] + ".plan.json"
    write(pf, json.dumps(plan))
    try:
        p = subprocess.run([binp, kind, "-plan", pf], stdout=subprocess.PIPE, stderr=subprocess.PIPE, text=True, timeout=timeout)
        rc, err = p.returncode, p.stderr
    except subprocess.TimeoutExpired as e:
        rc, err = -9, (e.stderr or "") if isinstance(e.stderr, str) else ""
    res = None
    rp = os.path.join(plan["out"], {"run": "result.json", "indexer": "indexer.json", "buslock": "buslock.json", "ws": "ws.json", "sameid": "sameid.json"}[kind])
    if os.path.exists(rp):
        with open(rp) as f:
            res = json.load(f)
    m = re.search(r"^(panic|fatal error): (.*)$", err, re.M)
    panic = m.group(2).strip() if m else None
    races = err.count("WARNING: DATA RACE")
    if rc == 66 and races:  # exit status of a -race binary that reported races: evidence, the run itself completed
        rc = 0
    if rc != 0 and not panic:
        raise Infra("harness child failed (%s) without a Go panic:\n%s" % (rc, err[-3000:]))
    if panic and kind == "run":
        where = "consumeEvents" if "consumeEvents" in err else ("eventLoop" if "eventLoop" in err else "other")
        with open(os.path.join(plan["out"], "trace.ndjson"), "a") as f:
            f.write(json.dumps({"n": 0, "p": 0, "l": "panic", "k": panic, "sub": 0, "ch": 0, "t": 0, "ok": False, "where": where}) + "\n")
    return dict(rc=rc, panic=panic, stderr=err, result=res, races=races)


def judge(d, known, drop_invs=()):
    """TLC decides whether the trace in d/trace.ndjson is a behaviour of the specification and evaluates the
    invariants along it. Returns dict(accepted, consumed, total, inv, inv_line, dev_used, crashed, states)."""
    with open(os.path.join(d, "trace.ndjson")) as f:
        hdr = json.loads(f.readline())
        total = 1 + sum(1 for _ in f)
    vlib.stage_spec(d)
    invs = [i for i in ("NoLostTopic", "LockInv", "RealNoCrash", "Coverage") if i not in drop_invs]
    consts = dict(NTopics=max(2, hdr.get("topics", 1)), NClients=hdr["clients"], Rounds=hdr["rounds"], MaxEvents=100000, MaxPolls=100000,
                  MaxTicks=100000, Foreign="TRUE",
                  Api="TRUE" if hdr["api"] else "FALSE", Known=known_set(known), SpinTopics="{2}", BufCap=100000, RespCap=100000,
                  TraceMode="TRUE")
    name = "judge%d" % (int(time.time() * 1e6) % 10 ** 9)
    write(os.path.join(d, name + ".cfg"), cfg("TraceSpec", consts, invs, deadlock=False, post="TraceAccepted"))
    r = vlib.tlc(d, "TraceFilterSystem", name + ".cfg", workers=1, timeout=1800)
    out = r["out"]
    res = dict(states=r["generated"], total=total, inv=None, inv_line=None, consumed=total, dev_used=[], crashed="no", out=out)
    m = re.search(r"Invariant (\w+) is violated", out)
    if m:
        res["inv"] = m.group(1)
        ls = re.findall(r"^/\\ l = (\d+)", out, re.M)
        res["inv_line"] = int(ls[-1]) - 1 if ls else None
        dv = re.findall(r"^/\\ devUsed = \{([^}]*)\}", out, re.M)
        res["dev_used"] = sorted(re.findall(r'"(D\d+)"', dv[-1])) if dv else []
        cr = re.findall(r'^/\\ crashed = "([^"]*)"', out, re.M)
        res["crashed"] = cr[-1] if cr else "no"
    m = re.search(r'consumed lines up to", (\d+), "of", (\d+)', out)
    if m:
        res["consumed"] = int(m.group(1))
    m = re.findall(r'<<"DEVUSED", "(\[.*?\])", "CRASHED", "([^"]*)">>', out)
    if m:
        res["dev_used"] = sorted(json.loads(m[-1][0].replace('\\"', '"')))
        res["crashed"] = m[-1][1]
    res["accepted"] = res["inv"] is None and res["consumed"] >= total
    return res


def judge_full(d, known):
    """Invariants first; when a state invariant stops the run early, a second pass checks that the rest of the
    trace conforms. Returns (class, detail, r): class in clean | lost | crash | reject."""
    r = judge(d, known)
    if r["inv"] == "RealNoCrash":
        return "crash", r["crashed"], r
    if r["inv"] == "LockInv":
        return "reject", "LockInv at line %s" % r["inv_line"], r
    if r["inv"] == "NoLostTopic":
        r2 = judge(d, known, drop_invs=("NoLostTopic",))
        if r2["inv"] == "RealNoCrash":  # lost a subscription on the way AND crashed at the end: the crash is the outcome
            r2["dev_used"] = sorted(set(r2["dev_used"]) | set(r["dev_used"]))
            return "crash", r2["crashed"], r2
        if r2["inv"] or r2["consumed"] < r2["total"]:
            return "reject", "%s line %d" % (r2["inv"] or "", r2["consumed"] + 1), r2
        r["dev_used"] = sorted(set(r2["dev_used"]) | set(r["dev_used"]))
        return "lost", "line %s" % r["inv_line"], r
    if r["consumed"] < r["total"]:
        return "reject", "line %d" % (r["consumed"] + 1), r
    return "clean", "", r


def trace_line(d, n):
    with open(os.path.join(d, "trace.ndjson")) as f:
        lines = f.read().splitlines()
    return lines[n - 1] if 0 < n <= len(lines) else ""


def sched_of(out):
    """All distinct schedules printed by FilterSystem_sim (PrintT(<<"SCHED", json>>))."""
    seen, res = set(), []
    for m in re.finditer(r'<<"SCHED", "(.*)">>', out):
        s = m.group(1).replace('\\"', '"')
        h = hashlib.sha1(s.encode()).hexdigest()
        if h in seen:
            continue
        seen.add(h)
        res.append(json.loads(s))
    return res


def replay_plan(steps, consts, out, seed=1):
    return dict(mode="replay", api=consts.get("Api") == "TRUE", clients=consts["NClients"], rounds=consts["Rounds"],
                topics=consts.get("NTopics", 1), events=0, polls=consts.get("MaxPolls", 0), seed=seed,
                steps=[s for s in steps if s["l"] != "idle"], out=out)


# ------------------------------------------------------------------------------------------------ named deviations

DEVIATIONS = [
    # id, constants of the counterexample run, invariant that prints the schedule, expected class on the real code
    # (D12 first: its repair changes the steps of publishTopic, which the judge of the later ones must know)
    ("D12", dict(NClients=1, Rounds=2, MaxEvents=0), "CexLostD12", "lost"),
    ("D11", dict(NClients=1, Rounds=1, MaxEvents=1), "CexNoCrash", "crash"),
    ("D25", dict(NClients=2, Rounds=1, MaxEvents=0), "CexLostD25", "lost"),
    ("D26", dict(NClients=2, Rounds=1, MaxEvents=0, Api="TRUE", NTopics=2, SpinTopics="{2}"), "CexNoSpin", "spin"),
]


def classify(binp, plan, known):
    """One execution of a plan on the real code + TLC's judgement of what was recorded."""
    shutil.rmtree(plan["out"], ignore_errors=True)
    c = run_child(binp, plan)
    cls, detail, r = judge_full(plan["out"], known)
    res = c["result"] or {}
    if cls == "clean" and res.get("spin"):
        cls, detail = "spin", json.dumps(res["spin"])
    if res.get("stuck") and not c["panic"]:  # goroutines blocked at quiescence: that is the outcome, whatever the trace looks like
        cls, detail = "stuck", "; ".join(res["stuck"]) + " [trace: %s %s]" % (cls, detail)
    if c["panic"] and cls != "crash":
        cls, detail = "reject", "child died of '%s' but the trace does not explain it (%s %s)" % (c["panic"], cls, detail)
    if res.get("recErrors") and cls != "stuck":
        raise Infra("recorder could not attribute a hook: %s" % res["recErrors"][:3])
    return dict(cls=cls, detail=detail, dev_used=r["dev_used"], panic=c["panic"], diverged=res.get("diverged") or [],
                states=r["states"], lines=r["total"], races=c["races"], stderr=c["stderr"][-1500:])


def sub_deviations(ctx):
    v, w, binp = ctx["v"], ctx["w"], ctx["bin"]
    d = w.sub("dev")
    vlib.stage_spec(d)
    present, report = set(), {}
    for dk, consts, inv, expect in DEVIATIONS:
        kn = {dk, "D25"}  # D25 is also the shape of today's subscribe(): the schedules must have it
        consts = dict(consts, Known=known_set(kn))
        write(os.path.join(d, dk + ".cfg"), cfg("SimSpec", consts, [inv], deadlock=False, view="View"))
        r = vlib.tlc(d, "FilterSystem_sim", dk + ".cfg", workers=1, timeout=900)
        scheds = sched_of(r["out"])
        if not r["violated"] or not scheds:
            raise Infra("deviation %s enabled but TLC finds no counterexample (deviation vacuous):\n%s" % (dk, r["out"][-2000:]))
        v.add_mc(r)
        steps = scheds[0]
        log("deviation %s: TLC counterexample of %d steps after %d distinct states; replaying it 3x on the real code"
            % (dk, len(steps), r["distinct"]))
        def once(k, dk=dk, steps=steps, consts=consts):
            plan = replay_plan(steps, consts, os.path.join(d, "%s-run%d" % (dk, k)))
            base = [x for x in ALL[:4] if x not in ctx["absent"]]
            o = classify(binp, plan, base)
            if o["cls"] == "reject":  # the tree may have this defect repaired in a way that changes the steps
                o2 = classify(binp, plan, [x for x in base if x != dk])
                if o2["cls"] == "clean":
                    o = o2
            return o
        outs = pmap(once, range(3), workers=3)
        classes = [o["cls"] for o in outs]
        ctx["replayed"] += 3
        sample = dict(deviation=dk, schedule=" ".join("%d.%s" % (s["p"], s["l"]) for s in steps if s["l"] != "idle"),
                      real_outcomes=classes, detail=outs[0]["detail"], dev_used=outs[0]["dev_used"])
        ctx["samples"].append(sample)
        if len(set(classes)) != 1:
            raise Infra("replay of the %s schedule is not deterministic on the real code: %s" % (dk, classes))
        o = outs[0]
        if o["cls"] == expect and (expect == "spin" or dk in o["dev_used"]):
            present.add(dk)
            plan = replay_plan(steps, consts, "replayed")
            rp = vlib.save_replay(ctx["pid"], dk, [([json.dumps(dict(kind="replay", deviation=dk, expect=expect, plan=plan))], "case.json"),
                                                  (os.path.join(d, "%s-run0" % dk, "trace.ndjson"), "trace.ndjson")],
                                  "%s reproduced 3x on the real code under TLC's schedule: %s (%s). %s\nre-run: bin/check C20 --replay <this dir>"
                                  % (dk, o["cls"], o["detail"], TEXT[dk]))
            write(os.path.join(rp, "stderr.txt"), o["stderr"])
            v.violation(SIG[dk], rp, "%s: %s [real outcome 3/3: %s %s]" % (dk, TEXT[dk], o["cls"], o["detail"]))
            ctx["traces_ok"] += 3
            log("deviation %s REPRODUCED on the real code 3/3: %s %s" % (dk, o["cls"], o["detail"][:120]))
        elif o["cls"] in ("clean",):
            ctx["absent"].add(dk)
            ctx["traces_ok"] += 3
            log("deviation %s: the real code does not follow the defective schedule (steps not offered: %s) -> absent"
                % (dk, "; ".join(o["diverged"][:2]) or "none, outcome clean"))
        else:
            # a different failure under this schedule: still a failure of the real code
            rp = vlib.save_replay(ctx["pid"], dk + "-other", [([json.dumps(dict(kind="replay", deviation=dk, expect=expect,
                                  plan=replay_plan(steps, consts, "replayed")))], "case.json"),
                                  (os.path.join(d, "%s-run0" % dk, "trace.ndjson"), "trace.ndjson")],
                                  "schedule of %s: real outcome %s %s" % (dk, o["cls"], o["detail"]))
            v.violation("Schedule/%s-under-%s-schedule" % (o["cls"], dk), rp, "%s %s (3/3)" % (o["cls"], o["detail"]))
        report[dk] = classes
    ctx["present"] = present
    ctx["cov"]["deviation_replays"] = report
    # self-test of the comparator: a perturbed expectation must mismatch
    for dk, classes in report.items():
        exp = [e for i, _, _, e in DEVIATIONS if i == dk][0]
        wrong = "clean" if classes[0] != "clean" else "crash"
        if classes[0] == wrong:
            raise Infra("binding vacuous: the replay comparator accepts a perturbed expectation for %s" % dk)
    ctx["selftests"].append("replay comparator: perturbed expected class mismatches the real outcome for each of %s" % sorted(report))


def sub_indexer(ctx):
    v, w, binp = ctx["v"], ctx["w"], ctx["bin"]
    d = w.sub("indexer")
    vlib.stage_spec(d)
    write(os.path.join(d, "d20.cfg"), cfg("SimSpec", dict(NClients=0, MaxEvents=0, WithIndexer="TRUE", MaxHeaders=1, Known='{"D27"}'),
                                          ["CexNoStuckQuit"], deadlock=False, view="View"))
    r = vlib.tlc(d, "FilterSystem_sim", "d20.cfg", workers=1, timeout=900)
    ss = sched_of(r["out"])
    if not r["violated"] or not ss:
        raise Infra("deviation D27 enabled but TLC finds no stuck quit re-broadcast (deviation vacuous):\n" + r["out"][-1500:])
    v.add_mc(r)
    sched = ["%d.%s" % (s["p"], s["l"]) for s in ss[0]]
    log("deviation D27: TLC counterexample (a loop blocked for ever in its quit re-broadcast) after %d distinct states: %s" % (r["distinct"], " ".join(sched)))
    outs = []
    for k in range(3):
        plan = dict(scenario="quit-rebroadcast", headers=2, seed=k, out=os.path.join(d, "quit%d" % k))
        c = run_child(binp, plan, kind="indexer")
        if c["panic"]:
            raise Infra("indexer scenario panicked: " + c["stderr"][-1500:])
        res = c["result"]
        if res["reached"] != ["im.index", "ih.quit", "im.quit"]:
            outs.append("diverged:" + res["note"])
        else:
            outs.append("returned" if res["returned"] else "stuck")
    ctx["replayed"] += 3
    ctx["samples"].append(dict(deviation="D27", schedule=" ".join(sched), real_outcomes=outs))
    if len(set(outs)) != 1:
        raise Infra("replay of the D27 schedule is not deterministic: %s" % outs)
    if outs[0] == "stuck":
        ctx["present"].add("D27")
        rp = vlib.save_replay(ctx["pid"], "D27", [([json.dumps(dict(kind="indexer", deviation="D27", expect="stuck",
                              plan=dict(scenario="quit-rebroadcast", headers=2, seed=0, out="replayed")))], "case.json")],
                              "D27 reproduced 3x: OnStart does not return within 3 s of Stop(). " + TEXT["D27"])
        v.violation(SIG["D27"], rp, "D27: " + TEXT["D27"] + " [real outcome 3/3: OnStart still blocked 3 s after Stop()]")
        log("deviation D27 REPRODUCED on the real code 3/3: OnStart blocked after Stop()")
    elif outs[0] == "returned":
        log("deviation D27: OnStart returns after Stop() under the schedule -> absent")
    else:
        raise Infra("indexer scenario could not be steered: %s" % outs)
    ctx["traces_ok"] += 3
    # ordering stress of the two loops sharing latestBlock (D13: unsynchronised; evidence only unless a wrong result shows)
    n = 300 if ctx["tier"] == "quick" else 5000
    for b, tag in [(binp, "plain")] + ([(ctx["bin_race"], "race")] if ctx.get("bin_race") else []):
        plan = dict(scenario="stress", headers=n, seed=ctx["seed"], out=os.path.join(d, "stress-" + tag))
        c = run_child(b, plan, kind="indexer", timeout=300)
        res = c["result"]
        if c["panic"]:
            rp = vlib.save_replay(ctx["pid"], "indexer-panic", [([c["stderr"][-4000:]], "stderr.txt")], "indexer stress panicked")
            v.violation("Crash/indexer-" + c["panic"][:40].replace(" ", "-"), rp, c["panic"])
            continue
        ctx["cov"].setdefault("race_reports", {})["indexer-" + tag] = c["races"]
        if c["races"]:
            log("indexer stress (%s): %d race-detector report(s) on latestBlock (D13) -- evidence only" % (tag, c["races"]))
        first = res["indexed"][0] if res["indexed"] else 1
        if not res["inOrder"] or len(res["indexed"]) != n - first + 1:
            rp = vlib.save_replay(ctx["pid"], "D13", [([json.dumps(res)], "indexer.json")], "heights indexed out of order / missing")
            v.violation("Corrupt/indexer-heights-out-of-order-or-missing", rp,
                        "indexed %d of %d heights, in order=%s" % (len(res["indexed"]), n, res["inOrder"]))
        elif not res["returned"] and "D27" not in ctx["present"]:
            v.violation("Deadlock/indexer-OnStart-does-not-return", "-", "OnStart did not return after Stop()")
        else:
            ctx["traces_ok"] += 1
            log("indexer stress (%s): heights %d..%d indexed once each in order%s" % (tag, first, n, "" if res["returned"] else " (OnStart blocked at Stop: D27)"))


# ------------------------------------------------------------------------------------------------ timer expiry (hook H4)

SIG_DRAIN = "Deadlock/GetFilterChanges-blocks-on-drained-deadline-timer-holding-filtersMu"


def sub_timers(ctx):
    """timeoutLoop / deadline timers (hook H4 shortens the 5 min deadline): the schedule 'a sweep finds several filters
    expired while their owners poll them' steered on the real code, 3x; blocked clients at quiescence = deadlock."""
    v, w, binp = ctx["v"], ctx["w"], ctx["bin"]
    d = w.sub("timers")
    known = (ctx["present"] & set(ALL[:4])) | {"D25"}

    def once(k):
        plan = dict(mode="expiry", api=True, clients=5, rounds=1, topics=1, events=0, polls=1, seed=ctx["seed"] * 10 + k, deadlineMs=40,
                    steps=[], out=os.path.join(d, "expiry%d" % k))
        return plan, classify(binp, plan, known)

    outs = pmap(once, range(3), workers=3)
    ctx["replayed"] += 3
    classes = [o["cls"] for _, o in outs]
    ctx["samples"].append(dict(scenario="expiry sweep vs GetFilterChanges", real_outcomes=classes, detail=outs[0][1]["detail"][:300]))
    nstuck = classes.count("stuck")
    if 0 < nstuck < 3:  # e.g. only one filter expired in a sweep: try again before judging
        more = pmap(lambda k: once(k + 3), range(3), workers=3)
        ctx["replayed"] += 3
        outs += more
        classes = [o["cls"] for _, o in outs]
        nstuck = classes.count("stuck")
        if nstuck < 3:
            raise Infra("expiry scenario blocked in %d of %d runs only: not reproducible (%s)" % (nstuck, len(outs), classes))
    if nstuck:
        plan, o = [x for x in outs if x[1]["cls"] == "stuck"][0]
        rp = vlib.save_replay(ctx["pid"], "timer-drain-deadlock", [([json.dumps(dict(kind="run", expect=o["cls"], plan=dict(plan, out="replayed"), known=sorted(known)))], "case.json"),
                              (os.path.join(plan["out"], "trace.ndjson"), "trace.ndjson")],
                              "clients blocked for ever in GetFilterChanges (filtersMu held) after timeoutLoop's sweep: " + o["detail"])
        v.violation(SIG_DRAIN, rp, "a sweep of timeoutLoop drained the deadline timers of expired filters but left the filters in api.filters; GetFilterChanges "
                    "on such a filter runs `if !f.deadline.Stop() { <-f.deadline.C }` under filtersMu and blocks for ever: every filter request hangs "
                    "[real outcome %d/%d runs: %s]" % (nstuck, len(outs), o["detail"][:300]))
        log("timer expiry: DEADLOCK on the real code in %d/%d runs: %s" % (nstuck, len(outs), o["detail"][:160]))
        return
    for plan, o in outs:
        handle_outcome(ctx, o, plan, "expiry-%s" % os.path.basename(plan["out"]), known)
    log("timer expiry: sweep vs. polling owners steered 3x on the real code: %s (expired filters are gone when the pollers get the lock)" % classes)


# ------------------------------------------------------------------------------------------------ several clients, one filter id

SIG_DOUBLE = "Schedule/double-uninstall-of-one-subscription-close-of-closed-channel"


def sub_sameid(ctx):
    """Several clients act on the SAME filter id at once (FilterSystem.tla: foreign uninstall `xu_lock`, invariants
    NoDoubleUninstall / NoCrash; deviation SplitUninstall = lookup, unlock, Unsubscribe, re-lock, delete, refuted by TLC):
    uninstall x uninstall, uninstall x GetFilterChanges, uninstall / poll x timeoutLoop's expiry sweep (hook H4) on the real
    PublicFilterAPI, 300 filters x 4 callers released by a barrier, each variant 3x in child processes."""
    v, w, binp = ctx["v"], ctx["w"], ctx["bin"]
    d = w.sub("sameid")
    vlib.stage_spec(d)
    write(os.path.join(d, "split.cfg"), cfg("MCSpec", dict(NClients=2, Rounds=1, MaxEvents=0, Api="TRUE", MaxPolls=1, Foreign="TRUE",
                                                           Known='{"SplitUninstall"}'), ["NoDoubleUninstall", "NoCrash"]))
    r = vlib.tlc(d, "FilterSystem", "split.cfg", workers=1, timeout=900)
    if not r["violated"]:
        raise Infra("deviation SplitUninstall enabled but TLC finds no double uninstall (deviation vacuous):\n" + r["out"][-1500:])
    v.add_mc(r)
    sched = re.findall(r"^State \d+: <(\w+)(?:\((\d+)\))? line", r["out"], re.M)
    ctx["samples"].append(dict(deviation="SplitUninstall", schedule=" ".join(a + ("(%s)" % b if b else "") for a, b in sched)))
    log("deviation SplitUninstall (lookup, unlock, Unsubscribe, re-lock, delete): TLC refutes NoDoubleUninstall after %d distinct states, %d steps: ... %s"
        % (r["distinct"], len(sched), " ".join(a + ("(%s)" % b if b else "") for a, b in sched[-6:])))
    jobs = [(var, k) for var in ("uu", "ug", "ux") for k in range(3)]

    def size(var, k):
        return dict(filters=300 if var == "ux" else 1500 * (1 + k // 3), callers=6)

    def once(job):
        var, k = job
        plan = dict(variant=var, deadlineMs=6 if var == "ux" else 0, out=os.path.join(d, "%s%d" % (var, k)), **size(var, k))
        return var, run_child(binp, plan, kind="sameid", timeout=240)

    outs = pmap(once, jobs, workers=3)
    for var in ("uu", "ug", "ux"):  # a scenario that failed in some runs only is run three more times (twice the size) before it is judged
        n = sum(1 for vv, c in outs if vv == var and c["panic"])
        if 0 < n < 3:
            outs += pmap(once, [(var, k) for k in range(3, 6)], workers=3)
    ctx["replayed"] += len(outs)
    summary = {}
    for var in ("uu", "ug", "ux"):
        rs = [c for vv, c in outs if vv == var]
        crashes = [c for c in rs if c["panic"]]
        doubles = [c for c in rs if not c["panic"] and (c["result"]["doubleTrue"] > 0 or c["result"]["uninstalls"] > c["result"]["rounds"])]
        blocked = [c for c in rs if not c["panic"] and c["result"]["blocked"]]
        summary[var] = "crash %d/%d, double %d/%d, blocked %d/%d" % (len(crashes), len(rs), len(doubles), len(rs), len(blocked), len(rs))
        name = {"uu": "UninstallFilter x UninstallFilter", "ug": "UninstallFilter x GetFilterChanges", "ux": "UninstallFilter x timeoutLoop expiry"}[var]
        plan = dict(variant=var, deadlineMs=6 if var == "ux" else 0, out="replayed", **size(var, 3))
        if len(crashes) >= 3:
            c = crashes[0]
            where = "eventLoop" if "eventLoop" in c["stderr"] else ("consumeEvents" if "consumeEvents" in c["stderr"] else "another goroutine")
            sig = SIG_DOUBLE if "close of closed" in c["panic"] else "Crash/%s-%s" % (where, re.sub(r"[^A-Za-z]+", "-", c["panic"])[:40])
            if sig not in ctx["reported"]:
                ctx["reported"].add(sig)
                rp = vlib.save_replay(ctx["pid"], "sameid-" + var, [([json.dumps(dict(kind="sameid", expect="crash", plan=plan))], "case.json"),
                                                                   ([c["stderr"][-3000:]], "stderr.txt")],
                                      "%s on the same filter id: the node dies of 'panic: %s' in %s (%d/%d runs)" % (name, c["panic"], where, len(crashes), len(rs)))
                v.violation(sig, rp, "%s on one filter id (6 callers released together, up to 1500 filters): 'panic: %s' in %s, %d/%d runs -- more than one Unsubscribe of one "
                            "subscription reached eventLoop, which ends every uninstall with close(f.err) [NoDoubleUninstall / NoCrash]"
                            % (name, c["panic"], where, len(crashes), len(rs)))
        elif len(doubles) == 3:
            r0 = doubles[0]["result"]
            rp = vlib.save_replay(ctx["pid"], "sameid-" + var, [([json.dumps(dict(kind="sameid", expect="double", plan=plan))], "case.json")], json.dumps(r0))
            v.violation("Schedule/double-uninstall-of-one-subscription", rp, "%s: %d filters with more than one successful UninstallFilter, %d uninstalls "
                        "processed for %d filters (3/3 runs) [NoDoubleUninstall]" % (name, r0["doubleTrue"], r0["uninstalls"], r0["rounds"]))
        elif len(blocked) == 3:
            rp = vlib.save_replay(ctx["pid"], "sameid-" + var, [([json.dumps(dict(kind="sameid", expect="blocked", plan=plan))], "case.json")], "blocked")
            v.violation("Deadlock/same-id-" + var, rp, "%s: callers still blocked after 60 s (3/3 runs)" % name)
        elif crashes or doubles or blocked:
            raise Infra("same-id scenario %s not reproducible: %s" % (var, summary[var]))
        else:
            ctx["traces_ok"] += 3
    ctx["cov"]["same_id_contention"] = summary
    log("same filter id, several clients (uninstall x uninstall / x GetFilterChanges / x expiry sweep), 3 x 3 runs, 6 callers per filter id released together: %s" % summary)


# ------------------------------------------------------------------------------------------------ lock order of the bus

HOLDER_HOOK = {"pb_chk": "bus closed.locked", "pb_sreq": "bus closed.locked", "pb_sacq": "bus closed.locked", "pb_close": "bus closeAll",
               "pb_del": "bus delTopic"}


def sub_buslocks(ctx):
    """spec/BusLocks.tla: the two bus mutexes explicit. The pinned lock order must be deadlock-free for all interleavings;
    for the witness deviation InvertedSubscribe TLC must produce the deadlock; the place where the lock holder sits in that
    counterexample is where the real publishTopic goroutine is held (hook H3) while other goroutines call into the real bus."""
    v, w, binp = ctx["v"], ctx["w"], ctx["bin"]
    d = w.sub("buslocks")
    vlib.stage_spec(d)
    cfgs = ["BusLocks_mc.cfg"] + (["BusLocks_mc_thorough.cfg"] if ctx["tier"] == "thorough" else [])
    for c in cfgs:
        t0 = time.time()
        r = vlib.tlc(d, "BusLocks", c, workers=16, timeout=3600)
        if r["violated"]:
            raise Infra("the pinned lock order of the event bus deadlocks in the model (%s) -- specification bug or a real inversion to triage:\n%s"
                        % (c, r["out"][-3000:]))
        v.add_mc(r)
        ctx["cov"].setdefault("design_runs", []).append("%s: %d distinct / %d generated, %.0fs" % (c, r["distinct"], r["generated"], time.time() - t0))
        log("design run BusLocks/%s: %d distinct states, %d transitions, lock order deadlock-free (%.0fs)" % (c, r["distinct"], r["generated"], time.time() - t0))
    r = vlib.tlc(d, "BusLocks", "BusLocks_mc_inverted.cfg", workers=1, timeout=900)
    if not r["violated"] or "NoBusDeadlock" not in r["out"]:
        raise Infra("witness deviation InvertedSubscribe enabled but TLC finds no deadlock (lock model vacuous):\n" + r["out"][-2000:])
    v.add_mc(r)
    out = r["out"]
    sched = re.findall(r"^State \d+: <(\w+)(?:\((\d+)\))? line", out, re.M)
    last = out[out.rfind("State %d:" % len(sched)) if sched else 0:]
    m = re.search(r"/\\ tW = (\d+)", last)
    holder = int(m.group(1)) if m else 0
    pcs = dict((int(a), b) for a, b in re.findall(r'(\d+) :> "(\w+)"', last))
    hold_at = HOLDER_HOOK.get(pcs.get(holder, ""), None)
    if not hold_at:
        raise Infra("cannot read the lock holder from the BusLocks counterexample (tW=%s, pc=%s)" % (holder, pcs.get(holder)))
    log("witness InvertedSubscribe: TLC deadlock after %d distinct states, %d steps; the holder of topicsMux (process %d) sits at %s -> hook '%s'"
        % (r["distinct"], len(sched), holder, pcs.get(holder), hold_at))

    def once(k):
        plan = dict(holdAt=hold_at, holdMs=20, clients=6, out=os.path.join(d, "hold%d" % k))
        return run_child(binp, plan, kind="buslock", timeout=120)["result"]

    outs = pmap(once, range(3), workers=3)
    ctx["replayed"] += 3
    bad = [bool(o["blocked"]) or not o["delivered"] for o in outs]
    ctx["samples"].append(dict(scenario="bus lock order: holder parked at '%s' while 6 goroutines call Subscribe/unsubscribe/AddTopic/Topics/RemoveTopic" % hold_at,
                               schedule=" ".join(a + ("(%s)" % b if b else "") for a, b in sched), real_outcomes=["blocked" if b else "all returned" for b in bad]))
    if not all(o["holderReached"] for o in outs):
        raise Infra("bus lock scenario: the publishTopic goroutine never reached '%s'" % hold_at)
    if all(bad):
        o = outs[0]
        rp = vlib.save_replay(ctx["pid"], "bus-lock-order", [([json.dumps(dict(kind="buslock", expect="blocked",
                              plan=dict(holdAt=hold_at, holdMs=20, clients=6, out="replayed")))], "case.json"), ([json.dumps(o)], "buslock.json")],
                              "bus stuck: calls that never returned: %s; publish on another topic delivered afterwards: %s" % (o["blocked"], o["delivered"]))
        v.violation("Deadlock/bus-lock-order:" + hold_at.replace(" ", "."), rp,
                    "with the publishTopic goroutine held 20 ms at '%s' (inside topicsMux) calls into the real bus never return: %s; a publish on "
                    "another topic afterwards delivered=%s [3/3 runs] -- lock-order inversion between topicsMux and subscribersMux"
                    % (hold_at, "; ".join((o["blocked"] or [])[:3]), o["delivered"]))
        log("bus lock order: DEADLOCK on the real bus 3/3: %s" % "; ".join((o["blocked"] or [])[:2]))
    elif any(bad):
        raise Infra("bus lock scenario blocked in %d of 3 runs only: %s" % (sum(bad), outs))
    else:
        ctx["traces_ok"] += 3
        log("bus lock order: holder parked at '%s' 3x on the real bus: all %d calls returned, publish on another topic delivered" % (hold_at, outs[0]["calls"]))


# ------------------------------------------------------------------------------------------------ simulated schedules

def nontrivial_key(d):
    """distinct non-trivial = an uninstall (un_send .. el_u_done of one subscription) overlapping in the recorded
    real trace with a step of consumeEvents or of a publishTopic goroutine. Returns the hash of the trace's
    (process, label) sequence when the trace qualifies, else None."""
    with open(os.path.join(d, "trace.ndjson")) as f:
        evs = [json.loads(x) for x in f.read().splitlines()[1:]]
    open_un, hit = set(), False
    for e in evs:
        if e["l"] == "un_send":
            open_un.add(e["sub"])
        elif e["l"] == "el_u_done":
            open_un.discard(e["sub"])
        elif open_un and (e["p"] == 2 or 10 < e["p"] < 30):
            hit = True
    if not hit:
        return None
    return hashlib.sha1(" ".join("%d.%s" % (e["p"], e["l"]) for e in evs).encode()).hexdigest()


def handle_outcome(ctx, o, plan, tag, known):
    """Common verdict logic for a judged execution (simulated schedule or stress run)."""
    v = ctx["v"]
    ctx["evaluations"] += 1
    ctx["classes"][o["cls"]] = ctx["classes"].get(o["cls"], 0) + 1
    for dk in o["dev_used"]:
        ctx["dev_windows"][dk] = ctx["dev_windows"].get(dk, 0) + 1
    if o["cls"] == "clean":
        ctx["traces_ok"] += 1
        return
    explained = [dk for dk in o["dev_used"] if dk in ctx["present"]]
    if o["cls"] == "crash" and "D11" in explained and "send on closed channel" in (o["panic"] or ""):
        ctx["traces_ok"] += 1  # the trace conforms; the crash is the reproduced finding
        return
    if o["cls"] == "lost" and explained and set(o["dev_used"]) & {"D12", "D25"}:
        ctx["traces_ok"] += 1
        return
    if o["cls"] == "spin" and "D26" in ctx["present"]:
        ctx["traces_ok"] += 1
        return
    if o["cls"] == "stuck":
        ctx["stalls"].append((tag, o["detail"], plan))
        return
    key = (o["cls"], tuple(o["dev_used"]))
    if o["cls"] != "reject" and key in ctx["reported"]:
        return
    rp = vlib.save_replay(ctx["pid"], tag, [([json.dumps(dict(kind="run", expect=o["cls"], plan=dict(plan, out="replayed"), known=sorted(known)))], "case.json"),
                                            (os.path.join(plan["out"], "trace.ndjson"), "trace.ndjson")],
                          "%s: real execution judged '%s' (%s), deviations exercised %s" % (tag, o["cls"], o["detail"], o["dev_used"]))
    if o["cls"] == "reject":
        ctx["rejects"].append((tag, o["detail"], plan, rp))
    else:
        ctx["reported"].add(key)
        v.violation("Schedule/%s-%s" % (o["cls"], "+".join(o["dev_used"]) or "nodeviation"), rp,
                    "%s: %s %s (deviations exercised: %s)" % (tag, o["cls"], o["detail"], o["dev_used"]))


def pmap(fn, items, workers=8):
    with cf.ThreadPoolExecutor(max_workers=workers) as ex:
        return list(ex.map(fn, items))


def sub_simulate(ctx):
    v, w, binp, seed = ctx["v"], ctx["w"], ctx["bin"], ctx["seed"]
    n = SIZES[ctx["tier"]]["sim"]
    d = w.sub("sim")
    vlib.stage_spec(d)
    known = (ctx["present"] & set(ALL[:4])) | {"D25"}
    jobs = []
    for name, consts, share in [
        ("sim-es", dict(NClients=3, Rounds=2, MaxEvents=3, NTopics=2, BufCap=3, RespCap=3), 0.6),
        ("sim-api", dict(NClients=2, Rounds=2, MaxEvents=2, NTopics=2, Api="TRUE", MaxPolls=2, SpinTopics="{2}", BufCap=3, RespCap=3), 0.4),
    ]:
        consts = dict(consts, Known=known_set(known))
        write(os.path.join(d, name + ".cfg"), cfg("SimSpec", consts, ["DumpQuiescent"], deadlock=False))
        want = max(2, int(n * share))
        r = vlib.tlc(d, "FilterSystem_sim", name + ".cfg", workers=1, timeout=3600,
                     simulate="num=%d" % (want * 2), extra=["-depth", "400", "-seed", str(seed)])
        scheds = [s for s in sched_of(r["out"]) if s and s[-1]["l"] == "idle" and s[-1]["obs"]["crashed"] == "no"][:want]
        if len(scheds) < max(2, want // 3):
            raise Infra("tlc -simulate produced only %d quiescent behaviours for %s:\n%s" % (len(scheds), name, r["out"][-1500:]))
        for i, s in enumerate(scheds):
            jobs.append((name, i, s, consts))

    def one(job):
        name, i, s, consts = job
        plan = replay_plan(s, consts, os.path.join(d, "%s-%d" % (name, i)), seed=seed)
        return job, plan, classify(binp, plan, known)

    keys = set()
    for job, plan, o in pmap(one, jobs):
        ctx["replayed"] += 1
        handle_outcome(ctx, o, plan, "sim-%s-%d" % (job[0], job[1]), known)
        k = nontrivial_key(plan["out"])
        if k:
            keys.add(k)
        v.cov["states"] += o["states"]
        v.cov["transitions"] += o["states"]
    ctx["nontrivial"] |= keys
    log("simulated schedules: %d behaviours of the specification replayed on the real code, classes so far %s" % (len(jobs), ctx["classes"]))


# ------------------------------------------------------------------------------------------------ stress

def sub_stress(ctx):
    v, w, binp, seed = ctx["v"], ctx["w"], ctx["bin"], ctx["seed"]
    sz = SIZES[ctx["tier"]]
    d = w.sub("stress")
    known = (ctx["present"] & set(ALL[:4])) | {"D25"}
    jobs = []
    for i in range(sz["stress"]):
        jobs.append((binp, "stress-%d" % i, dict(mode="stress", api=(i % 2 == 1), stallPermille=[0, 60, 120][i % 3], deadlineMs=[0, 12, 6][(i // 2) % 3] if i % 2 == 1 else 0, clients=2 + i % 3, rounds=2 + (i // 3) % 2, topics=1 + (i // 2) % 2,
                                                events=sz["stress_events"], polls=2, seed=seed * 100003 + i, steps=[], out=os.path.join(d, "s%d" % i))))
    if ctx.get("bin_race"):
        for i in range(sz["race"]):
            jobs.append((ctx["bin_race"], "race-%d" % i, dict(mode="stress", api=(i % 2 == 1), deadlineMs=10 if i % 2 == 1 else 0, clients=3, rounds=3, topics=2, events=sz["stress_events"],
                                                             polls=2, seed=seed * 200003 + i, steps=[], out=os.path.join(d, "r%d" % i))))

    def one(job):
        b, tag, plan = job
        shutil.rmtree(plan["out"], ignore_errors=True)
        o = classify_with(b, plan, known)
        return job, o

    def classify_with(b, plan, known):
        return classify(b, plan, known)

    races = 0
    keys = set()
    for (b, tag, plan), o in pmap(one, jobs):
        races += o["races"]
        handle_outcome(ctx, o, plan, tag, known)
        k = nontrivial_key(plan["out"])
        if k:
            keys.add(k)
        v.cov["states"] += o["states"]
        v.cov["transitions"] += o["states"]
        if ctx.get("first_clean") is None and o["cls"] == "clean" and not plan["api"]:
            ctx["first_clean"] = (plan, known)
    ctx["nontrivial"] |= keys
    ctx["cov"].setdefault("race_reports", {})["event-plumbing"] = races
    if races:
        log("stress under -race: %d race-detector report(s) -- evidence only" % races)
    # rejected traces: behaviour of the real code outside the specification; a verdict only when it repeats
    conf_reported = set()
    for tag, detail, plan, rp in ctx["rejects"]:
        nums = re.findall(r"\d+", detail)
        first = trace_line(plan["out"], int(nums[0])) if nums else ""
        lab0 = json.loads(first).get("l", "?") if first.startswith("{") else "?"
        if lab0 in conf_reported:  # the same step rejected in another run: already reported
            continue
        again = 0
        for k in range(2):
            o = classify(binp, dict(plan, out=plan["out"] + "-again%d" % k), known)
            again += o["cls"] == "reject"
        line = trace_line(plan["out"], int(re.findall(r"\d+", detail)[0])) if re.findall(r"\d+", detail) else ""
        if again:
            lab = json.loads(line).get("l", "?") if line.startswith("{") else "?"
            conf_reported.add(lab)
            v.violation("Conformance/%s" % lab, rp, "%s: recorded interleaving is not a behaviour of the specification at %s: %s (rejected again in %d/2 re-runs)"
                        % (tag, detail, line[:200], again))
        else:
            raise Infra("trace of %s rejected at %s (%s) but not in 2 re-runs of the same seed: flaky observation, fix the trace specification"
                        % (tag, detail, line[:200]))
    for tag, detail, plan in ctx["stalls"]:
        # a stalled run is a verdict only when the same seed stalls 3/3 (the stall plan of a seed holds the same hooks again)
        where = re.sub(r"\(filter [^)]*\)", "", detail.split(";")[0].split("[trace")[0])
        sig = "Deadlock/" + re.sub(r"[^A-Za-z]+", "-", re.sub(r"client \d+|round \d+", "", where)).strip("-")[:60]
        if sig in ctx["reported"]:  # the same stall in another run: already reported
            continue
        again, tries = 0, 0
        while again < 2 and tries < 4:
            tries += 1
            again += classify(binp, dict(plan, out=plan["out"] + "-again%d" % tries), known)["cls"] == "stuck"
        if again >= 2:
            rp = vlib.save_replay(ctx["pid"], tag, [([json.dumps(dict(kind="run", expect="stuck", plan=dict(plan, out="replayed"), known=sorted(known)))], "case.json")],
                                  "client goroutines blocked at quiescence: " + detail)
            if sig not in ctx["reported"]:
                ctx["reported"].add(sig)
                v.violation(sig, rp, "%s (stall plan %d permille): %s (stalled again in %d of %d re-runs of the seed)"
                            % (tag, plan.get("stallPermille", 0), detail[:300], again, tries))
        else:
            ctx["cov"].setdefault("unreproduced_stalls", []).append("%s: %s" % (tag, detail[:200]))
    log("stress: %d free-running executions of the real objects judged by TLC, classes so far %s, deviation windows seen %s"
        % (len(jobs), ctx["classes"], ctx["dev_windows"]))


# ------------------------------------------------------------------------------------------------ binding self-test

def sub_selftest(ctx):
    w = ctx["w"]
    # a dedicated run: one client, three rounds, one topic -- no join, no concurrent uninstall: always a clean trace
    known = (ctx["present"] & set(ALL[:4])) | {"D25"}
    # (the base trace is only material for the corruptions below: on a loaded box a recording can be unusable - a receiver
    # logging several events late - so it is recorded again, with another seed, before the self-test gives up)
    for attempt in range(3):
        plan = dict(mode="stress", api=False, clients=1, rounds=3, topics=1, events=6, polls=0, seed=ctx["seed"] + 1000 * attempt, steps=[],
                    out=os.path.join(w.sub("selftest"), "base%d" % attempt))
        o = classify(ctx["bin"], plan, known)
        if o["cls"] == "clean":
            break
        ctx["cov"].setdefault("selftest_base_trace_rerecorded", []).append("%s %s" % (o["cls"], str(o["detail"])[:120]))
    if o["cls"] != "clean":
        raise Infra("self-test: the single-client base trace was judged %s %s (3 recordings)" % (o["cls"], o["detail"]))
    ctx["traces_ok"] += 1
    with open(os.path.join(plan["out"], "trace.ndjson")) as f:
        lines = f.read().splitlines()
    evs = [json.loads(x) for x in lines]

    def variant(name, new_lines):
        d = w.sub("selftest-" + name)
        write(os.path.join(d, "trace.ndjson"), "\n".join(new_lines) + "\n")
        cls, detail, _ = judge_full(d, known)
        return cls, detail

    done = []
    # (1) swap two consecutive events of the event loop (same process)
    idx = [i for i in range(1, len(evs) - 1) if evs[i]["p"] == 1 and evs[i]["l"] == "el_i_addchk"]
    if not idx:
        raise Infra("self-test: no event-loop install in the trace")
    i = idx[0]
    j = next(k for k in range(i + 1, len(evs)) if evs[k]["p"] == 1)
    sw = list(lines)
    sw[i], sw[j] = sw[j], sw[i]
    cls, detail = variant("swap", sw)
    if cls != "reject":
        raise Infra("binding vacuous: a trace with two swapped event-loop steps (lines %d,%d) was judged %s" % (i + 1, j + 1, cls))
    done.append("swapped lines %d/%d (eventLoop) rejected at %s" % (i + 1, j + 1, detail))
    # (2) drop one hook event
    k = next(k for k in range(1, len(evs)) if evs[k]["l"] == "c_bsub2")
    cls, detail = variant("drop", lines[:k] + lines[k + 1:])
    if cls != "reject":
        raise Infra("binding vacuous: a trace with a dropped hook event (line %d) was judged %s" % (k + 1, cls))
    done.append("dropped line %d (bus subscribe.add) rejected at %s" % (k + 1, detail))
    # (3) alter one recorded choice
    k = next(k for k in range(1, len(evs)) if evs[k]["l"] == "el_wait")
    e = dict(evs[k])
    e["sub"] = e["sub"] % (plan["clients"] * plan["rounds"]) + 1
    cls, detail = variant("alter", lines[:k] + [json.dumps(e)] + lines[k + 1:])
    if cls != "reject":
        raise Infra("binding vacuous: a trace with an altered subscription number (line %d) was judged %s" % (k + 1, cls))
    done.append("altered subscription of line %d (eventLoop request) rejected at %s" % (k + 1, detail))
    ctx["selftests"] += done
    for s in done:
        log("binding self-test: " + s)


# ------------------------------------------------------------------------------------------------ websocket server (spec/WsConn.tla)

WS_SIZES = {
    "quick": dict(directed=3, free=6, conns=3, rounds=4, kib=1024, bigkib=8192, stall=25, cfgs=["WsConn_mc.cfg"]),
    "thorough": dict(directed=6, free=48, conns=5, rounds=8, kib=2048, bigkib=16384, stall=40, cfgs=["WsConn_mc.cfg", "WsConn_mc_thorough.cfg", "WsConn_mc_thorough_b.cfg"]),
}
WS_TEXT = {
    "Crash/ws-concurrent-write": "two goroutines were inside gorilla's write of one connection at the same time (gorilla/websocket allows ONE concurrent writer; "
                                 "all writers of a connection must go through wsConn.mux): 'panic: concurrent write to websocket connection'",
    "Corrupt/ws-frame-interleaved": "a client received a frame that is not the one well-formed JSON-RPC message it had to be",
    "Deadlock": "goroutines of the websocket server did not come to rest / a request stayed unanswered on an open connection",
}


def ws_plan(mode, order, seed, sz, out, conns=None, sockbuf=65536, rounds=None, kib=None):
    return dict(seed=seed, mode=mode, order=order, conns=conns or sz["conns"], rounds=rounds or sz["rounds"], respKiB=kib or sz["kib"], stallMs=sz["stall"],
                sockBuf=sockbuf, out=out)


def ws_signature(c):
    """Outcome class of one run of the real websocket server. Returns (signature | None, text)."""
    err, res = c["stderr"], c["result"]
    if c["panic"]:
        m = re.search(r"^goroutine \d+ \[running\]:\n(.*?)(?:\n\n|\Z)", err, re.S | re.M)
        stack = m.group(1) if m else ""
        fns = re.findall(r"evermint/v12/rpc\.\(\*(\w+)\)\.([\w.]+)", stack)
        role = "notifier" if any(f.startswith("subscribe") for _, f in fns) else ("readLoop" if any("readLoop" in f for _, f in fns) else "other")
        at = ".".join(fns[-1]) + (" (via %s)" % ".".join(fns[0]) if len(fns) > 1 else "") if fns else "?"
        if "concurrent write to websocket connection" in c["panic"]:
            return "Crash/ws-concurrent-write:" + role, "the node process died of 'panic: %s' in %s" % (c["panic"], at)
        if not fns:
            raise Infra("ws child panicked outside rpc/websockets.go (harness problem?):\n" + err[-3000:])
        return "Crash/ws-%s:%s" % (re.sub(r"[^A-Za-z0-9]+", "-", c["panic"])[:50].strip("-"), role), "the node process died of 'panic: %s' in %s" % (c["panic"], at)
    if res is None:
        raise Infra("ws child wrote no result:\n" + err[-2000:])
    herr = [e for k in res["conns"] for e in (k["harnessErrs"] or [])]
    if herr:
        raise Infra("ws harness problem: %s" % herr[:3])
    rec = [x for x in (res["recovered"] or [])]
    if rec:
        if "concurrent write to websocket connection" in rec[0]:
            return "Crash/ws-concurrent-write:readLoop", "the read loop of a connection panicked ('%s', recovered by net/http: the connection stays open, is never read again and its requests stay unanswered)" % rec[0]
        return "Crash/ws-readLoop-panic", rec[0]
    cor = [(k["conn"], e) for k in res["conns"] for e in (k["corrupt"] or [])]
    if cor:
        return "Corrupt/ws-frame-interleaved", "connection %d: %s" % cor[0]
    if res["leftover"]:
        g = res["leftover"][0]
        m = re.match(r"(\w+) in (\S+)", g)
        where = re.sub(r"[^A-Za-z0-9]+", "-", (m.group(1) + "-" + m.group(2).split(")")[-1]) if m else g).strip("-")[:50]
        return "Deadlock/ws-" + where, "3 s after the last client went away: " + "; ".join(res["leftover"][:3])
    mis = [(k["conn"], e) for k in res["conns"] for e in (k["missing"] or [])]
    if mis:
        return "Deadlock/ws-request-unanswered", "connection %d: %s" % mis[0]
    sil = [(k["conn"], e) for k in res["conns"] for e in (k["silent"] or [])]
    if sil:
        return "Deadlock/ws-subscription-silent", "connection %d: subscription %s never notified while events kept coming" % sil[0]
    return None, ""


def ws_convert(raw_path, tag):
    """Recording of one run (one line per ws hook call / client note) -> per connection the lines of TraceWsConn.tla."""
    evs = [json.loads(x) for x in vlib.read_lines(raw_path) if x.strip()]
    evs.sort(key=lambda e: e["n"])
    conns = {}
    for e in evs:
        conns.setdefault(e["c"], []).append(e)
    out = []
    for c in sorted(conns):
        lines, reader, subof, after_fwd, nsub, end = [], None, {}, False, 0, None

        def emit(l, p=0, s=0, ok=True, k="", rd=0, nf=()):
            lines.append(dict(l=l, p=p, s=s, ok=ok, k=k, rd=rd, nf=list(nf), c=c, run=tag))

        emit("reset")
        for idx, e in enumerate(conns[c]):
            h, g = e["h"], e["g"]
            if h == "open":
                reader = g
                continue
            if h == "cl_close":
                emit("cl_close", 2)
                continue
            if h == "end":  # judged last: the client may have a message before the writer logged the end of its write
                end = e
                continue
            if g == reader:
                p = 1
            elif h == "notify":
                p = subof.setdefault(g, 10 + e["s"])
            else:
                p = subof.get(g, 99)  # 99: a goroutine the specification does not know
            nsub = max(nsub, e["s"])
            if h == "read":
                emit("rl_read", 1, ok=e["ok"])
            elif h == "start":
                emit("rl_sub", 1, s=e["s"])
            elif h == "unsubscribed":
                emit("rl_unsub", 1, s=e["s"])
            elif h == "forwarded":
                emit("rl_fwd", 1)
                after_fwd = True
            elif h == "exit":
                emit("rl_exit", 1)
            elif h == "notify":
                emit("sg_idle", p, s=e["s"])
            elif h == "w.locked":
                emit("w_lock", p)
                emit("w_beg", p)
            elif h == "w.done":
                emit("w_end", p)
                emit("w_unlock", p)
                if p == 1 and after_fwd:
                    emit("rl_chk", 1)
                    after_fwd = False
                elif p != 1:  # sg_chk has no hook and reads only the goroutine's own state: what it decided shows in the goroutine's next line
                    nxt = next((x["h"] for x in conns[c][idx + 1:] if x["g"] == g), "")
                    emit("sg_chk", p, k="close" if nxt == "c.locked" else "ok")
            elif h == "c.locked":
                emit("c_lock", p)
            elif h == "c.done":
                emit("c_close", p)
            else:
                emit("unknown-hook-" + h, p)
        if end:
            emit("end", 0, rd=end.get("rd", 0), nf=end.get("nf") or [])
        out.append(dict(run=tag, conn=c, lines=lines, subs=nsub))
    return out


def ws_overlap(sec):
    """non-trivial connection trace = the window the specification is about was open: a notifier took an event while the read loop
    was inside a write, or the read loop had an answer ready while a notifier was inside a write. Returns a key of the interleaving or None."""
    inw, hit = set(), 0
    for ln in sec["lines"]:
        if ln["l"] == "w_beg":
            inw.add(ln["p"])
        elif ln["l"] == "w_end":
            inw.discard(ln["p"])
        elif (ln["l"] == "sg_idle" and 1 in inw) or (ln["l"] == "rl_fwd" and inw):
            hit += 1
    if not hit:
        return None
    return hashlib.sha1(" ".join("%d.%s" % (x["p"], x["l"]) for x in sec["lines"]).encode()).hexdigest()


def ws_judge(d, sections, name="ws"):
    """TLC (TraceWsConn.tla) judges the sections one after the other in one run. Returns (accepted sections, rejected: list of
    (section, line dict, lineno in section), states)."""
    todo, rejected, states, okc = list(sections), [], 0, 0
    rounds = 0
    while todo and len(rejected) < 3:  # (a tree that breaks the discipline is rejected everywhere: three samples are enough)
        rounds += 1
        td = os.path.join(d, "%s-judge%d" % (name, rounds))
        os.makedirs(td, exist_ok=True)
        vlib.stage_spec(td)
        lines = [dict(l="header", p=0, s=0, ok=True, k="", rd=0, nf=[], c=0, run="")]
        owner = [None]
        for sec in todo:
            for i, ln in enumerate(sec["lines"]):
                lines.append(ln)
                owner.append((sec, i))
        write(os.path.join(td, "trace.ndjson"), "\n".join(json.dumps(x) for x in lines) + "\n")
        S = max([1] + [sec["subs"] for sec in todo])
        write(os.path.join(td, "judge.cfg"), "SPECIFICATION TraceSpec\nCONSTANTS\n  R = 1000000\n  S = %d\n  E = 1000000\n  U = 1000000\n  Bypass = FALSE\n"
              "  TraceMode = TRUE\n  defaultInitValue = defaultInitValue\nINVARIANTS OneWriter NoCrash MuxInv ResetIsInit\nPOSTCONDITION TraceAccepted\nCHECK_DEADLOCK FALSE\n" % S)
        r = vlib.tlc(td, "TraceWsConn", "judge.cfg", workers=1, timeout=1800)
        states += r["generated"]
        out = r["out"]
        m = re.search(r'consumed lines up to", (\d+), "of", (\d+)', out)
        inv = re.search(r"Invariant (\w+) is violated", out)
        if inv:
            ls = re.findall(r"^/\\ l = (\d+)", out, re.M)
            bad = int(ls[-1]) - 1 if ls else len(lines)
            why = "invariant " + inv.group(1)
        elif m:
            bad = int(m.group(1)) + 1
            why = "no step of the specification"
        elif r["ok"]:
            okc += len(todo)
            break
        else:
            raise Infra("ws trace validation: unreadable TLC result:\n" + out[-3000:])
        bad = min(bad, len(lines))
        sec, i = owner[bad - 1]
        rejected.append((sec, sec["lines"][i], i + 1, why))
        k = todo.index(sec)
        okc += k
        todo = todo[k + 1:]
    return okc, rejected, states


def ws_run(binp, plan, timeout=300):
    shutil.rmtree(plan["out"], ignore_errors=True)
    c = run_child(binp, plan, timeout=timeout, kind="ws")
    sig, text = ws_signature(c)
    return dict(plan=plan, child=c, sig=sig, text=text)


def ws_repeats(binp, o, d, times=2):
    """the same plan (same seed) again: how often the same signature shows."""
    outs = pmap(lambda k: ws_run(binp, dict(o["plan"], out=o["plan"]["out"] + "-again%d" % k)), range(times), workers=times)
    return sum(1 for x in outs if x["sig"] == o["sig"]), outs


def sub_ws(v, w, tier, seed, binp=None, stats=None):
    """The websocket server's per-connection write discipline (spec/WsConn.tla) bound to the real rpc.NewWebsocketsServer."""
    sz = WS_SIZES[tier]
    binp = binp or vlib.bin_path("vh_conc")
    stats = stats if stats is not None else {}
    d = w.sub("ws")
    vlib.stage_spec(d)
    cov = v.cov.setdefault("ws", {})
    t0 = time.time()
    # ---- design: the pinned discipline, all interleavings
    runs = []
    for c in sz["cfgs"]:
        t1 = time.time()
        r = vlib.tlc(d, "WsConn", c, workers=16, timeout=3600, extra=["-coverage", "1000"])
        if r["violated"] or not r["ok"]:
            raise Infra("the write discipline of websockets.go as modelled violates a property (%s) -- specification bug or a real defect to triage:\n%s" % (c, r["out"][-3000:]))
        v.add_mc(r)
        dead = [lab for lab, n, m in re.findall(r"^<(\w+) line \d+, col \d+ to line \d+, col \d+ of module WsConn>: (\d+):(\d+)", r["out"], re.M)
                if int(m) == 0 and lab not in ("Terminating",)]
        if dead:
            raise Infra("WsConn design run %s is vacuous for labels %s" % (c, dead))
        runs.append("WsConn/%s: %d distinct / %d generated, %.0fs" % (c, r["distinct"], r["generated"], time.time() - t1))
        log("design run WsConn/%s: %d distinct states, %d transitions: OneWriter, NoCrash, MuxInv, deadlock freedom hold (%.0fs)" % (c, r["distinct"], r["generated"], time.time() - t1))
    r = vlib.tlc(d, "WsConn", "WsConn_mc_live.cfg", workers=8, timeout=1800)
    if r["violated"] or "Temporal properties were violated" in r["out"]:
        raise Infra("WsConn: liveness under weak fairness violated:\n" + r["out"][-3000:])
    v.add_mc(r)
    runs.append("WsConn/live (WF: ReaderReturns, ComesToRest): %d distinct" % r["distinct"])
    # ---- witnesses: with the deviation TLC must produce the two-writers schedule; it says who is inside the write first
    orders = []
    for inv in ("OneWriter", "NoReaderCrash"):
        write(os.path.join(d, "bypass-%s.cfg" % inv), "SPECIFICATION MCSpec\nCONSTANTS\n  R = 1\n  S = 1\n  E = 2\n  U = 0\n  Bypass = TRUE\n  TraceMode = FALSE\n"
              "  defaultInitValue = defaultInitValue\nINVARIANTS %s\nCHECK_DEADLOCK TRUE\n" % inv)
        r = vlib.tlc(d, "WsConn", "bypass-%s.cfg" % inv, workers=1, timeout=600)
        if not r["violated"] or inv not in r["out"]:
            raise Infra("deviation Bypass enabled but TLC does not violate %s (write model vacuous):\n%s" % (inv, r["out"][-2000:]))
        v.add_mc(r)
        sched = re.findall(r"^State \d+: <(\w+)(?:\((\d+)\))? line", r["out"], re.M)
        begs = [int(p or 1) for lab, p in sched if lab == "w_beg"]
        last = r["out"][r["out"].rfind("State %d:" % (len(sched) + 1)):]
        m = re.search(r"/\\ writing = \{([^}]*)\}", last)
        inside = [int(x) for x in re.findall(r"\d+", m.group(1))] if m else []
        if len(inside) != 2:
            raise Infra("cannot read the two writers from the %s counterexample: %s" % (inv, last[:400]))
        first = [p for p in begs if p in inside][-2]
        order = "reader-first" if first == 1 else "sub-first"
        orders.append((order, " ".join(a + ("(%s)" % b if b else "") for a, b in sched)))
        log("witness Bypass/%s: TLC counterexample after %d distinct states, %d steps; inside the write first: %s, second writer: %s -> steer '%s'"
            % (inv, r["distinct"], len(sched), "read loop" if first == 1 else "notifier", "notifier" if first == 1 else "read loop", order))
    r = vlib.tlc(d, "WsConn", "WsConn_mc_obs.cfg", workers=1, timeout=600)
    cov["observation_notification_before_subscription_id_possible_in_model"] = bool(r["violated"])
    # ---- binding: the real server in child processes
    jobs = []
    for order, _ in orders:
        for k in range(sz["directed"]):
            jobs.append(ws_plan("directed", order, seed * 1000 + k, sz, os.path.join(d, "%s-%d" % (order, k)), conns=1 if order == "sub-first" else 2, rounds=2))
    for k in range(sz["free"]):
        big = k % 3 == 2  # every third run: system-default socket buffers (several MiB on loopback) and answers large enough to fill them
        jobs.append(ws_plan("free", "", seed * 7919 + k, sz, os.path.join(d, "free-%d" % k), sockbuf=0 if big else 65536, kib=sz["bigkib"] if big else None))
    for k in range(2):  # no overlap sought: small requests one after the other, few events -- material for the trace judge (when the tree has the hooks)
        jobs.append(ws_plan("calm", "", seed * 31 + k, sz, os.path.join(d, "calm-%d" % k), conns=2, rounds=6, kib=4))
    t1 = time.time()
    outs = pmap(lambda p: ws_run(binp, p), jobs, workers=6)
    hooks = any(o["child"]["result"] and o["child"]["result"]["hooks"] for o in outs)
    agg = dict(runs=len(outs), connections=0, requests=0, answers=0, notifications=0, overlaps=0, mux_waits=0, early=0, parked=0, events=0, classes={}, closes={})
    for o in outs:
        res = o["child"]["result"]
        if not res:
            continue
        agg["parked"] += res["parked"]
        agg["mux_waits"] += res.get("muxWaits", 0)
        agg["events"] += sum(res["events"].values())
        for k in res["conns"]:
            agg["connections"] += 1
            agg["requests"] += k["requests"]
            agg["answers"] += k["responses"]
            agg["notifications"] += sum(k["notifs"] or [])
            agg["overlaps"] += k["overlaps"]
            agg["early"] += k["early"]
            agg["closes"][k["closed"]] = agg["closes"].get(k["closed"], 0) + 1
            for c, n in k["classes"].items():
                agg["classes"][c] = agg["classes"].get(c, 0) + n
    reported = set()
    nclean = 0
    for o in outs:
        if o["sig"] is None:
            nclean += 1
            continue
        if o["sig"] in reported:
            continue
        n, again = ws_repeats(binp, o, d)
        tag = os.path.basename(o["plan"]["out"])
        if n == len(again):
            reported.add(o["sig"])
            files = [([json.dumps(dict(kind="ws", expect=o["sig"], plan=dict(o["plan"], out="replayed")))], "case.json"), ([o["child"]["stderr"][-6000:]], "stderr.txt")]
            if o["child"]["result"]:
                files.append(([json.dumps(o["child"]["result"], indent=1)], "ws.json"))
            rp = vlib.save_replay(v.pid, "ws-" + tag, files, "%s on the real websocket server (%s, seed %d): %s\nre-run: bin/check C20 --replay <this dir>"
                                  % (o["sig"], o["plan"]["mode"] + " " + o["plan"]["order"], o["plan"]["seed"], o["text"]))
            base = o["sig"].split(":")[0]
            v.violation(o["sig"], rp, "%s [%s; the same seed again: %d/%d runs with the same outcome] %s"
                        % (o["text"], tag, n + 1, len(again) + 1, WS_TEXT.get(base, WS_TEXT.get(base.split("/")[0], ""))))
            log("websocket server: %s REPRODUCED %d/%d on the real code (%s)" % (o["sig"], n + 1, len(again) + 1, tag))
        else:
            cov.setdefault("unreproduced", []).append("%s: %s (%s) -- repeated in %d of %d re-runs of the seed" % (tag, o["sig"], o["text"][:200], n, len(again)))
            log("websocket server: %s in %s did not repeat (%d of %d re-runs of the seed): evidence only" % (o["sig"], tag, n, len(again)))
    if agg["overlaps"] == 0:
        raise Infra("ws binding vacuous: no client ever stalled inside an answer while events were injected")
    log("websocket server: %d runs of the real server (%d connections, %d requests answered, %d notifications, %d stalls inside an answer with events arriving; "
        "%d samples of one writer waiting for wsConn.mux behind the other's network write), %d clean (%.0fs)"
        % (len(outs), agg["connections"], agg["answers"], agg["notifications"], agg["overlaps"], agg["mux_waits"], nclean, time.time() - t1))
    # ---- trace validation when the tree has the ws hooks
    accepted, nontrivial, tstates, keys = 0, 0, 0, set()
    if hooks:
        sections = []
        for o in sorted(outs, key=lambda x: x["sig"] is not None):  # every run whose process survived has a complete recording, whatever its outcome (clean runs first)
            if o["child"]["result"] and o["child"]["result"]["hooks"]:
                sections += ws_convert(os.path.join(o["plan"]["out"], "wsraw.ndjson"), os.path.basename(o["plan"]["out"]))
        accepted, rejected, tstates = ws_judge(d, sections)
        keys = set(k for k in (ws_overlap(s) for s in sections) if k)
        nontrivial = len(keys)
        conf = set()
        for sec, ln, i, why in rejected:
            if ln["l"] in conf:
                continue
            o = [x for x in outs if os.path.basename(x["plan"]["out"]) == sec["run"]][0]
            if o["sig"] is not None:  # the trace of a run that failed anyway: where the judge stopped is part of that failure's evidence
                cov.setdefault("rejected_traces_of_failed_runs", []).append("%s connection %d: line %d %s (%s); outcome of the run %s" % (sec["run"], sec["conn"], i, ln["l"], why, o["sig"]))
                continue
            again = 0
            for k in range(2):
                o2 = ws_run(binp, dict(o["plan"], out=o["plan"]["out"] + "-conf%d" % k))
                if o2["child"]["result"] and o2["child"]["result"]["hooks"]:
                    _, rej2, st2 = ws_judge(d, ws_convert(os.path.join(o2["plan"]["out"], "wsraw.ndjson"), sec["run"]), name="conf%d" % k)
                    tstates += st2
                    again += any(x[1]["l"] == ln["l"] for x in rej2)
            if again == 2:
                conf.add(ln["l"])
                rp = vlib.save_replay(v.pid, "ws-conformance-" + sec["run"], [([json.dumps(dict(kind="ws", expect="Conformance/ws-" + ln["l"], plan=dict(o["plan"], out="replayed")))], "case.json"),
                                      ([json.dumps(x) for x in sec["lines"]], "trace.ndjson")],
                                      "connection %d of %s: line %d (%s) is %s of WsConn.tla" % (sec["conn"], sec["run"], i, json.dumps(ln), why))
                v.violation("Conformance/ws-" + ln["l"], rp, "%s connection %d: the recorded step %d '%s' of goroutine %d is %s (spec/WsConn.tla: every message of a connection is written "
                            "under wsConn.mux: lock, write, unlock) -- rejected again in 2/2 re-runs of the seed" % (sec["run"], sec["conn"], i, ln["l"], ln["p"], why))
            elif v.violations:  # the tree is broken anyway (reported above): an unrepeatable rejection is evidence, not a machinery error
                cov.setdefault("unreproduced", []).append("%s connection %d: trace rejected at line %d (%s: %s), again in %d of 2 re-runs" % (sec["run"], sec["conn"], i, ln["l"], why, again))
            else:
                raise Infra("ws trace of %s connection %d rejected at line %d (%s: %s) but only in %d of 2 re-runs: flaky observation, fix the trace specification"
                            % (sec["run"], sec["conn"], i, ln["l"], why, again))
        log("websocket server: %d connection traces judged by TLC (TraceWsConn.tla), %d accepted, %d distinct interleavings with a notifier's event inside a write of the read loop (or an answer ready inside a notifier's write)"
            % (len(sections), accepted, nontrivial))
    else:
        log("websocket server: the tree has no ws hooks (notes/ws-hooks.diff): black-box outcome only, no trace validation")
    # ---- binding self-test
    tests = ws_selftest(v, w, d, binp, sz, seed, hooks, [o for o in outs if o["sig"] is None])
    cov.update(dict(design_runs=runs, witness_schedules=[dict(order=o, schedule=s) for o, s in orders], hooks_present=hooks, binding=agg,
                    connection_traces_accepted_by_tlc=accepted, connection_traces_nontrivial=nontrivial, selftest=tests, wall_s=round(time.time() - t0, 1)))
    v.cov["states"] += tstates
    v.cov["transitions"] += tstates
    stats.update(runs=len(outs), clean=nclean, traces_ok=accepted, nontrivial_keys=keys, hooks=hooks, classes={"ws." + k: n for k, n in agg["classes"].items()})
    return stats


def ws_selftest(v, w, d, binp, sz, seed, hooks, clean):
    done = []
    # (1) the clients' comparator: the rest-server answers one request with another request's result -> must be reported as a corrupted answer
    o = ws_run(binp, dict(ws_plan("directed", "reader-first", seed, sz, os.path.join(d, "selftest-wrong"), conns=1, rounds=2), selfTest="wrong-answer"))
    if o["sig"] == "Corrupt/ws-frame-interleaved":
        done.append("an answer carrying another request's result is reported: " + o["text"][:120])
    elif o["sig"] and v.violations:
        done.append("comparator self-test not conclusive on this tree: its run ended with %s (already reported)" % o["sig"])
    else:
        raise Infra("binding vacuous: a wrong answer of the rest-server was not noticed by the clients (outcome %s)" % o["sig"])
    # (2) the outcome classifier: a perturbed clean result must not be clean
    if clean:
        res = json.loads(json.dumps(clean[0]["child"]["result"]))
        res["leftover"] = ["readLoop in (*wsConn).Close [sync.Mutex.Lock] (innermost sync.runtime_SemacquireMutex)"]
        sig, _ = ws_signature(dict(stderr="", panic=None, result=res))
        if not (sig or "").startswith("Deadlock/ws-readLoop"):
            raise Infra("binding vacuous: a read loop left over after the clients went away is classified %s" % sig)
        done.append("a perturbed result (read loop left over) is classified " + sig)
    # (3) the judge: corrupted trace lines must be rejected
    if hooks and clean:
        secs = []
        for o in clean:
            secs = [s for s in ws_convert(os.path.join(o["plan"]["out"], "wsraw.ndjson"), "selftest") if any(x["l"] == "sg_idle" for x in s["lines"]) and any(x["l"] == "rl_fwd" for x in s["lines"])]
            if secs:
                break
        if not secs:
            raise Infra("ws self-test: no connection trace with a forwarded request and a notification")
        base = secs[0]
        L = base["lines"]

        def variant(name, lines):
            okc, rej, _ = ws_judge(d, [dict(base, lines=lines)], name="selftest-" + name)
            return rej[0] if rej else None

        if v.violations and variant("base", L) is not None:  # (on a clean tree the base trace was accepted by the main judge run just before)
            done.append("trace self-test not conclusive on this tree: its base trace is rejected (violations reported)")
            for s in done:
                log("binding self-test (ws): " + s)
            return done
        i = next(k for k, x in enumerate(L) if x["l"] == "rl_fwd")
        j = next(k for k in range(i, len(L)) if L[k]["l"] == "w_lock" and L[k]["p"] == 1)
        # the answer written without the mutex: drop the reader's lock / unlock lines of the forwarded answer
        e = next(k for k in range(j, len(L)) if L[k]["l"] == "w_unlock" and L[k]["p"] == 1)
        r1 = variant("nolock", [x for k, x in enumerate(L) if not (j <= k <= e and x["p"] == 1 and x["l"] in ("w_lock", "w_beg", "w_end", "w_unlock"))])
        if r1 is None:
            raise Infra("binding vacuous: a trace whose forwarded answer is written without lock/unlock lines was accepted")
        done.append("forwarded answer without its w_lock..w_unlock lines rejected at line %d (%s)" % (r1[2], r1[1]["l"]))
        # a notifier entering its write while the read loop is inside its own: move a notifier's w_lock/w_beg into the reader's write
        sg = next((k for k, x in enumerate(L) if x["l"] == "w_lock" and x["p"] != 1 and k > e), None)
        if sg is not None:
            mv = [L[sg], L[sg + 1]]
            rest = [x for k, x in enumerate(L) if k not in (sg, sg + 1)]
            pos = next(k for k, x in enumerate(rest) if x is L[j + 1]) + 1
            r2 = variant("overlap", rest[:pos] + mv + rest[pos:])
            if r2 is None:
                raise Infra("binding vacuous: a trace with a notifier locking inside the read loop's critical section was accepted")
            done.append("notifier's w_lock moved inside the read loop's critical section rejected at line %d (%s)" % (r2[2], r2[1]["l"]))
        # the client got more than was written
        k = next(k for k, x in enumerate(L) if x["l"] == "end")
        r3 = variant("count", L[:k] + [dict(L[k], rd=L[k]["rd"] + 1)] + L[k + 1:])
        if r3 is None:
            raise Infra("binding vacuous: a trace whose client received more messages than were written was accepted")
        done.append("end line with one more received message than written rejected at line %d" % r3[2])
    for s in done:
        log("binding self-test (ws): " + s)
    return done


def ws_replay(binp, w, case):
    """--replay of a saved websocket case: the plan again, 3x; the violation stands when the recorded outcome repeats every time."""
    d = w.sub("ws-replay")
    outs = pmap(lambda k: ws_run(binp, dict(case["plan"], out=os.path.join(d, "run%d" % k))), range(3), workers=3)
    if case["expect"].startswith("Conformance/ws-"):
        lab, hits = case["expect"][len("Conformance/ws-"):], 0
        for k, o in enumerate(outs):
            if o["child"]["result"] and o["child"]["result"]["hooks"]:
                _, rej, _ = ws_judge(d, ws_convert(os.path.join(o["plan"]["out"], "wsraw.ndjson"), "replay"), name="replay%d" % k)
                hits += any(x[1]["l"] == lab for x in rej)
        log("replay: websocket scenario 3x, traces rejected at '%s' in %d runs" % (lab, hits))
        return hits >= 2  # (a tree that breaks the discipline may also fail a run in another way before the judge gets that far)
    sigs = [o["sig"] for o in outs]
    log("replay: websocket scenario 3x -> %s" % sigs)
    return sigs.count(case["expect"]) == 3


def sub_ws_ctx(ctx):
    st = sub_ws(ctx["v"], ctx["w"], ctx["tier"], ctx["seed"], binp=ctx["bin"])
    ctx["replayed"] += st["runs"]
    ctx["traces_ok"] += st["traces_ok"]
    ctx["nontrivial"] |= st["nontrivial_keys"]
    ctx["classes"].update(st["classes"])
    ctx["selftests"] += ctx["v"].cov["ws"]["selftest"]


# ------------------------------------------------------------------------------------------------ log criteria (spec/LogFilter.tla)

LF_SIZES = {"quick": dict(filters=60, vectors=24, per=5, passes=2), "thorough": dict(filters=363, vectors=0, per=5, passes=2)}
SIG_LF = "LogFilter/notifications-differ-from-model"


def lf_grid(maxpos=4):
    """The grid of spec/LogFilter.tla (the design run prints its cardinalities; they must agree)."""
    seqs = lambda opts: [list(t) for k in range(maxpos + 1) for t in itertools.product(opts, repeat=k)]
    filters = [dict(addr=a, t=[list(p) for p in t]) for a in ([], ["a1"], ["a1", "a2"]) for t in seqs(([], ["h1"], ["h1", "h2"]))]
    logs = [dict(a=a, t=list(t)) for a in ("a1", "a2", "a3") for t in seqs(("h1", "h2", "h3"))]
    return filters, logs


def lf_trailing(f):
    return len(f["t"]) > 0 and f["t"][-1] == []


def lf_tla_pair(out):
    """(criteria, log) of a LogFilter counterexample (initial state)."""
    m = re.search(r"/\\ f = \[addr \|-> (\{[^}]*\}), t \|-> (<<.*?>>)\]\s*/\\ l = \[([^\]]*)\]", out, re.S)
    if not m:
        raise Infra("cannot read the (criteria, log) pair from the LogFilter counterexample:\n" + out[-1500:])
    toks = lambda s: re.findall(r'"(\w+)"', s)
    pos = re.findall(r"\{([^}]*)\}", m.group(2))
    t = re.search(r"t \|-> (<<[^>]*>>)", m.group(3)).group(1)
    a = re.search(r'a \|-> "(\w+)"', m.group(3)).group(1)
    return dict(addr=toks(m.group(1)), t=[toks(p) for p in pos]), dict(a=a, t=toks(t))


def lf_judge(d, lines, name="lf"):
    """TLC (TraceLogFilter.tla) judges the recorded deliveries. Returns (accepted lines, first broken (lineno, kind, expected) | None, states)."""
    td = os.path.join(d, name)
    os.makedirs(td, exist_ok=True)
    vlib.stage_spec(td)
    hdr = dict(target="header", s=0, v=0, f=dict(addr=[], t=[]), logs=[], got=[[]])
    write(os.path.join(td, "trace.ndjson"), "\n".join(json.dumps(x) for x in [hdr] + lines) + "\n")
    write(os.path.join(td, "judge.cfg"), "SPECIFICATION TraceSpec\nCONSTANTS\n  Dev = FALSE\nPOSTCONDITION TraceAccepted\nCHECK_DEADLOCK FALSE\n")
    r = vlib.tlc(td, "TraceLogFilter", "judge.cfg", workers=1, timeout=1800)
    m = re.search(r'<<\s*"LAWBROKEN",\s*(\d+),\s*"([^"]*)",\s*"((?:[^"\\]|\\.)*)"\s*>>', r["out"])
    if m:
        return int(m.group(1)) - 2, (int(m.group(1)) - 1, m.group(2), m.group(3).replace('\\"', '"')), r["generated"]
    if not r["ok"]:
        raise Infra("log-delivery trace rejected without a named law:\n" + r["out"][-3000:])
    return len(lines), None, r["generated"]


def lf_signature(c):
    """Crash class of a child of mode "logs": a panic in a goroutine that consumes log events."""
    if c["panic"]:
        m = re.search(r"^goroutine \d+ \[running\]:\n(.*?)(?:\n\n|\Z)", c["stderr"], re.S | re.M)
        stack = m.group(1) if m else ""
        fns = re.findall(r"evermint/v12/rpc[\w/]*\.(?:\(\*(\w+)\)\.)?([\w.]+)\(", stack)
        if not fns:
            raise Infra("logs child panicked outside evermint's rpc packages (harness problem?):\n" + c["stderr"][-3000:])
        who = ["%s.%s" % f if f[0] else f[1] for f in fns]
        role = "log-consumer" if any(("subscribeLogs" in w or "NewFilter" in w or "PublicFilterAPI.Logs" in w) for w in who) else "other"
        slug = re.sub(r"\d+", "N", re.sub(r"[^A-Za-z0-9]+", "-", c["panic"]))[:60].strip("-")
        return "Crash/logs-%s:%s" % (slug, role), "the node process died of 'panic: %s' in %s (via %s): a goroutine without recover" % (c["panic"], who[-1], who[0])
    return ws_signature(c)


def sub_logfilter(v, w, tier, seed, binp=None, stats=None):
    """User-chosen log criteria against injected logs: spec/LogFilter.tla decides, the real websocket `logs` subscription and the real
    PublicFilterAPI.NewFilter are driven with criteria / logs of its grid, TLC judges every recorded delivery."""
    sz = LF_SIZES[tier]
    binp = binp or vlib.bin_path("vh_conc")
    stats = stats if stats is not None else {}
    d = w.sub("logfilter")
    vlib.stage_spec(d)
    cov = v.cov.setdefault("logfilter", {})
    t0 = time.time()
    r = vlib.tlc(d, "LogFilter", "LogFilter_mc.cfg", workers=16, timeout=1800)
    if r["violated"] or not r["ok"]:
        raise Infra("LogFilter: the pinned matching rule violates a property of the design (specification bug or a defect to triage):\n" + r["out"][-3000:])
    v.add_mc(r)
    filters, logs = lf_grid()
    g = re.search(r'<<"GRID", (\d+), (\d+)>>', r["out"])
    if not g or (int(g.group(1)), int(g.group(2))) != (len(filters), len(logs)):
        raise Infra("the grid of the binding (%d criteria, %d logs) is not the grid of LogFilter.tla (%s)" % (len(filters), len(logs), g and g.groups()))
    log("design run LogFilter: %d (criteria, log) pairs = %d x %d: the implementation-as-reads never reads past the log's topics and equals the rule (%.0fs)"
        % (r["distinct"], len(filters), len(logs), time.time() - t0))
    # witnesses: the deviation must read past the topics; TLC's pairs go first into the binding
    first = []
    for inv, extra in (("NoIndexCrash", ""), ("NoIndexCrashSig", "")):
        write(os.path.join(d, "dev-%s.cfg" % inv), "SPECIFICATION Spec\nCONSTANTS\n  MaxPos = 4\n  Dev = TRUE\nINVARIANTS %s\nCHECK_DEADLOCK FALSE\n" % inv)
        r = vlib.tlc(d, "LogFilter", "dev-%s.cfg" % inv, workers=1, timeout=600)
        if not r["violated"]:
            raise Infra("LogFilter: deviation enabled but TLC finds no read past the log's topics (%s vacuous):\n%s" % (inv, r["out"][-1500:]))
        v.add_mc(r)
        f, l = lf_tla_pair(r["out"])
        first.append((f, l))
        log("witness LogFilter/%s: criteria %s against log %s reads past the log's topics -> first into the binding" % (inv, json.dumps(f), json.dumps(l)))
    rng = random.Random(seed * 65537 + 11)
    if sz["filters"] >= len(filters):
        fs, ls = list(filters), list(logs)
        rng.shuffle(ls)
    else:  # seeded sample, the boundary shapes over-represented: trailing / leading / middle wildcards, every length
        pool = [f for f in filters if f not in [x[0] for x in first]]
        rng.shuffle(pool)
        trailing = [f for f in pool if lf_trailing(f)]
        fs = [x[0] for x in first] + trailing[:sz["filters"] // 3]
        fs += [f for f in pool if f not in fs][:sz["filters"] - len(fs)]
        pl = [l for l in logs if l not in [x[1] for x in first]]
        rng.shuffle(pl)
        ls = [x[1] for x in first] + pl[:sz["vectors"] * sz["per"] - len(first)]
    vectors = [ls[i:i + sz["per"]] for i in range(0, len(ls), sz["per"])]
    plan = dict(ws_plan("logs", "", seed, WS_SIZES[tier], os.path.join(d, "run"), conns=1, rounds=1), filters=fs, vectors=vectors, passes=sz["passes"])
    cov.update(criteria=len(fs), logs=len(ls), receipts=len(vectors), passes=sz["passes"], exhaustive_grid=sz["filters"] >= len(filters))

    def once(k):
        p = dict(plan, out=plan["out"] + "-%d" % k)
        shutil.rmtree(p["out"], ignore_errors=True)
        c = run_child(binp, p, timeout=1800, kind="ws")
        sig, text = lf_signature(c)
        return dict(plan=p, child=c, sig=sig, text=text)

    t1 = time.time()
    o = once(0)
    outs = [o]
    lines, broken, acc, tstates = [], None, 0, 0
    if o["sig"] is None:
        lines = [json.loads(x) for x in vlib.read_lines(os.path.join(o["plan"]["out"], "logtrace.ndjson"))]
        acc, broken, tstates = lf_judge(d, lines)
    if o["sig"] is not None or broken:
        outs += pmap(once, [1, 2], workers=2)  # the same plan again: a verdict only when it repeats
    if o["sig"] is not None:
        n = sum(1 for x in outs if x["sig"] == o["sig"])
        if n == 3:
            rp = vlib.save_replay(v.pid, "logfilter-crash", [([json.dumps(dict(kind="logs", expect=o["sig"], plan=dict(plan, out="replayed")))], "case.json"),
                                                            ([o["child"]["stderr"][-6000:]], "stderr.txt")],
                                  "%s: %s\nre-run: bin/check C20 --replay <this dir>" % (o["sig"], o["text"]))
            v.violation(o["sig"], rp, "%s -- log subscriptions / filters with user-chosen criteria (first: %s) while EVM tx events with logs (first: %s) are delivered [3/3 runs]"
                        % (o["text"], json.dumps(fs[0]), json.dumps(ls[0])))
            log("log criteria: %s REPRODUCED 3/3 on the real code" % o["sig"])
        else:
            cov.setdefault("unreproduced", []).append("%s (%s): %d of 3 runs" % (o["sig"], o["text"][:200], n))
    elif broken:
        ln = lines[broken[0] - 1]
        again = 0
        for x in outs[1:]:
            if x["sig"] is None:
                l2 = [json.loads(y) for y in vlib.read_lines(os.path.join(x["plan"]["out"], "logtrace.ndjson"))]
                _, b2, st2 = lf_judge(d, l2, name="lf-again%d" % again)
                tstates += st2
                again += bool(b2 and b2[1] == broken[1])
        if again == 2:
            rp = vlib.save_replay(v.pid, "logfilter-delivery", [([json.dumps(dict(kind="logs", expect=SIG_LF + ":" + broken[1], plan=dict(plan, out="replayed")))], "case.json"),
                                                               ([json.dumps(ln)], "line.json")], "line %d (%s): %s; the model's matches: %s" % (broken[0], broken[1], json.dumps(ln), broken[2]))
            v.violation(SIG_LF + ":" + broken[1], rp, "%s of criteria %s delivered logs %s of the receipt %s; spec/LogFilter.tla: exactly %s match [%s in 3/3 runs]"
                        % ("the websocket logs subscription" if ln["target"] == "ws" else "PublicFilterAPI.NewFilter/GetFilterChanges", json.dumps(ln["f"]), ln["got"], json.dumps(ln["logs"]), broken[2], broken[1]))
        else:
            raise Infra("log deliveries rejected (%s at line %d: %s) but only in %d of 2 re-runs: flaky observation" % (broken[1], broken[0], json.dumps(ln)[:300], again))
    res = o["child"]["result"] or {}
    ev = res.get("events", {})
    pairs = sum(len(x["logs"]) for x in lines)
    region = sum(1 for x in lines for l in x["logs"] if lf_trailing(x["f"]) and len(l["t"]) < len(x["f"]["t"]))
    matched = sum(len(max(x["got"], key=len)) for x in lines)
    lostpass = sum(1 for x in lines for gp in x["got"] if gp == [] and any(q for q in x["got"]))
    if o["sig"] is None and not broken and (region == 0 or matched == 0):
        raise Infra("log-criteria binding vacuous: %d pairs with a trailing wildcard beyond the log's topics, %d logs delivered" % (region, matched))
    v.cov["states"] += tstates
    v.cov["transitions"] += tstates
    cov.update(lines_judged_by_tlc=len(lines), lines_accepted=acc if not broken else broken[0] - 1, pairs_through_real_code=pairs, pairs_trailing_wildcard_beyond_log=region,
               logs_delivered=matched, passes_that_lost_an_event=lostpass, sentinel_misses=ev.get("sentinelMisses", 0), wall_s=round(time.time() - t0, 1))
    # self-test of the judge: one delivered index removed / one added must be rejected
    tests = []
    if lines and not broken:
        k = next(i for i, x in enumerate(lines) if len(x["got"][0]) >= 1 and len(x["got"][0]) < len(x["logs"]))
        x = lines[k]
        miss = [i + 1 for i in range(len(x["logs"])) if i + 1 not in x["got"][0]][0]
        for name, got in (("missing", [g[1:] for g in x["got"]]), ("extra", [sorted(g + [miss]) for g in x["got"]])):
            _, b, _ = lf_judge(d, [dict(x, got=got)], name="lf-selftest-" + name)
            if not b:
                raise Infra("binding vacuous: a delivery with one %s log was accepted by TraceLogFilter" % name)
            tests.append("delivery with one %s log rejected (%s)" % (name, b[1]))
        for s in tests:
            log("binding self-test (log criteria): " + s)
    cov["selftest"] = tests
    log("log criteria: %d subscriptions + %d filters with criteria of the grid x %d receipts (%d logs) x %d passes on the real code: %d lines judged by TLC, %d (criteria, log) pairs, "
        "%d of them with a trailing wildcard beyond the log's topics, %d logs delivered, %d passes lost a whole event (%.0fs)"
        % (len(fs), len(fs), len(vectors), len(ls), sz["passes"], len(lines), pairs, region, matched, lostpass, time.time() - t1))
    stats.update(runs=len(outs), traces_ok=(len(lines) if lines and not broken else 0), classes={"logfilter.lines": len(lines), "logfilter.trailing-beyond-log": region},
                 nontrivial_keys=set(hashlib.sha1(json.dumps([x["f"], l]).encode()).hexdigest() for x in lines for l in x["logs"] if lf_trailing(x["f"]) and len(l["t"]) < len(x["f"]["t"])))
    return stats


def lf_replay(binp, w, case):
    d = w.sub("lf-replay")

    def once(k):
        c = run_child(binp, dict(case["plan"], out=os.path.join(d, "run%d" % k)), timeout=1800, kind="ws")
        sig, _ = lf_signature(c)
        if sig is None and case["expect"].startswith(SIG_LF):
            lines = [json.loads(x) for x in vlib.read_lines(os.path.join(d, "run%d" % k, "logtrace.ndjson"))]
            _, b, _ = lf_judge(d, lines, name="judge%d" % k)
            sig = SIG_LF + ":" + b[1] if b else None
        return sig

    sigs = pmap(once, range(3), workers=3)
    log("replay: log-criteria scenario 3x -> %s" % sigs)
    return sigs.count(case["expect"]) == 3


def sub_logfilter_ctx(ctx):
    st = sub_logfilter(ctx["v"], ctx["w"], ctx["tier"], ctx["seed"], binp=ctx["bin"])
    ctx["replayed"] += st["runs"]
    ctx["traces_ok"] += 1 if st["traces_ok"] else 0
    ctx["classes"].update(st["classes"])
    ctx["nontrivial"] |= st["nontrivial_keys"]
    ctx["selftests"] += ctx["v"].cov["logfilter"]["selftest"]


SUBCHECKS = [sub_design, sub_buslocks, sub_sameid, sub_ws_ctx, sub_logfilter_ctx, sub_deviations, sub_indexer, sub_timers, sub_simulate, sub_stress, sub_selftest]



# ----------------------------------------------------------------------------------------------
# clauses (b) and (c), appended by the coordinator: block execution of the real application
# ----------------------------------------------------------------------------------------------
FOCUS_BC = ["EndPanic", "Outside", "Admit", "TxIndex", "Cumulative", "Seq", "FeeMarket"]


def sub_blocks(ctx):
    """(b) Begin/EndBlock never fail; (c) a failure inside one transaction (consensus error, handler panic through the destroy
    guard / engine failure, block gas exhaustion, rejection) never alters the results of the others: EthTx histories of the real
    application validated by TraceEthTx.tla - every other transaction's result must be exactly what the specification computes
    from the block WITHOUT giving the failed one any effect beyond its admission effects.  Plus: garbage transaction bytes and
    invalid transactions through FinalizeBlock on several replicas (no replica may panic), and the real fee-market EndBlock on the
    boundary grid of consensus parameters (max gas -1, 0, 1, ...): a panic is a violation."""
    import checks_ethtx
    import checks_fee
    import fm_samples
    v, w, tier, seed = ctx["v"], ctx["w"], ctx["tier"], ctx["seed"]
    vlib.build("vh")
    sz = dict(traces=30, blocks=8) if tier == "quick" else dict(traces=600, blocks=10)
    before = len(v.violations)
    cov, _ = checks_ethtx.ethtx_binding(v, ctx["pid"], w, FOCUS_BC, sz, seed, corrupt_fn=None, tag="bc")
    failing = sum(n for k, n in cov.items() if k in ("eth.core", "eth.panic", "eth.blockgas", "eth.ante", "eth.dropped", "cosmos.msgfail", "cosmos.ante"))
    ctx["classes"].update({"blocks." + k: n for k, n in cov.items()})
    ctx["evaluations"] += sz["traces"]
    ctx["traces_ok"] += sz["traces"] - (len(v.violations) - before)
    if failing == 0 and len(v.violations) == before:
        raise Infra("clause (c): no failing transaction in the generated histories")
    log("clauses (b)/(c): %d block histories, %d failing transactions among them (classes %s), EndBlock never panicked" % (
        sz["traces"], failing, {k: n for k, n in cov.items() if k.startswith("eth.")}))
    # EndBlock of the fee market over valid consensus parameters and reachable base fees
    vlib.build("vh_fm")
    d = w.sub("fm")
    sp = os.path.join(d, "samples.ndjson")
    vlib.vh(["-seed", str(seed), "-n", "50" if tier == "quick" else "2000", "-out", sp], cmd="vh_fm")
    samples = fm_samples.load(sp)
    P256 = 2 ** 256
    bad = [s for s in samples if s["r"] == "panic" and int(s["b"]) < P256 - P256 // 8]
    for i, s in enumerate(bad[:3]):
        rp = vlib.save_replay(ctx["pid"], "endblock_panic_%d" % i, [([json.dumps(s)], "samples.ndjson")], "the real fee-market EndBlock panicked on valid consensus parameters")
        v.violation("EndBlock/fee-market-panic", rp, json.dumps(s)[:300])
    ctx["evaluations"] += len(samples)
    ctx["classes"]["endblock.evaluations"] = len(samples)
    ctx["classes"]["endblock.zero-gas-target"] = sum(1 for s in samples if s["maxGas"] in ("0", "1"))


SUBCHECKS.append(sub_blocks)


def do_replay(pid, w, replay):
    if os.path.exists(os.path.join(replay, "programs.json")):
        import checks_ethtx
        r = checks_ethtx.validate_dir_copy(w, replay, FOCUS_BC)
        if r["err"]:
            log("VIOLATION property=%s replay=%s" % (pid, replay))
            return 1
        log("replay: accepted")
        return 0
    with open(os.path.join(replay, "case.json")) as f:
        case = json.load(f)
    binp = vlib.build("vh_conc")
    plan = dict(case["plan"], out=os.path.join(w.sub("replay"), "run"))
    if case["kind"] == "ws":
        bad = ws_replay(binp, w, case)
    elif case["kind"] == "logs":
        bad = lf_replay(binp, w, case)
    elif case["kind"] == "sameid":
        c = run_child(binp, plan, kind="sameid", timeout=180)
        bad = bool(c["panic"]) or c["result"]["doubleTrue"] > 0 or c["result"]["blocked"]
        log("replay: same-id scenario -> panic=%s result=%s" % (c["panic"], c["result"]))
    elif case["kind"] == "buslock":
        c = run_child(binp, plan, kind="buslock")
        bad = bool(c["result"]["blocked"]) or not c["result"]["delivered"]
        log("replay: bus lock scenario -> blocked=%s delivered=%s" % (c["result"]["blocked"], c["result"]["delivered"]))
    elif case["kind"] == "indexer":
        c = run_child(binp, plan, kind="indexer")
        got = "stuck" if not c["result"]["returned"] else "returned"
        log("replay: indexer scenario -> %s" % got)
        bad = got == "stuck"
    else:
        o = classify(binp, plan, case.get("known") or ALL[:4])
        log("replay: real outcome %s %s (deviations exercised %s)" % (o["cls"], o["detail"], o["dev_used"]))
        bad = o["cls"] == case["expect"] if case.get("expect") in ("stuck", "crash", "lost", "spin", "reject") else o["cls"] != "clean"
    if bad:
        log("VIOLATION property=%s replay=%s" % (pid, replay))
        return 1
    log("replay: clean")
    return 0


@register("C20")
def check_c20(pid, tier, seed, replay):
    v = Verdict(pid, tier, seed)
    w = Work(pid)
    try:
        if replay:
            return do_replay(pid, w, replay)
        binp = vlib.build("vh_conc")
        p = subprocess.run([binp, "probe"], stdout=subprocess.PIPE, stderr=subprocess.STDOUT, text=True, timeout=120)
        if p.returncode != 0:
            raise Infra("the repository tree has no hook H3 (verifhook.At in pubsub.go / filter_system.go): " + p.stdout.strip()[-300:])
        ctx = dict(v=v, w=w, pid=pid, tier=tier, seed=seed, bin=binp, bin_race=None, cov=v.cov, present=set(), samples=[], selftests=[],
                   absent=set(), reported=set(), replayed=0, traces_ok=0, evaluations=0, classes={}, dev_windows={}, rejects=[], stalls=[], nontrivial=set(), first_clean=None)
        try:
            ctx["bin_race"] = vlib.build("vh_conc", race=True)
        except Infra as e:
            log("race build not available: %s" % str(e)[:200])
        for sc in SUBCHECKS:
            t0 = time.time()
            sc(ctx)
            log("-- %s done in %.0fs" % (sc.__name__, time.time() - t0))
        v.cov["traces_validated_against_impl"] = ctx["traces_ok"]
        v.cov["evaluations"] = ctx["evaluations"] + ctx["replayed"]
        v.cov["schedules_replayed"] = ctx["replayed"]
        v.cov["distinct_nontrivial"] = len(ctx["nontrivial"])
        v.cov["classes"] = ctx["classes"]
        v.cov["deviation_windows_in_free_runs"] = ctx["dev_windows"]
        v.cov["deviations_present"] = sorted(ctx["present"])
        v.cov["selftest"] = ctx["selftests"]
        v.cov["rule"] = ("executions of the real bus/EventSystem/FilterAPI (replayed TLC schedules + free-running seeded stress) whose recorded "
                         "trace TLC accepted; non-trivial = distinct recorded interleavings in which an uninstall (unsubscribe request .. close(f.err)) "
                         "overlaps a step of consumeEvents or of a publishTopic goroutine")
        v.cov["samples"] = ctx["samples"][:6]
        v.cov["exhaustive"] = False
        v.assumptions = ["clause (a) only; clauses (b),(c) are bound by the EthTx/FeeMarket checks, clause (d) is out of reach",
                         "CometBFT's WSClient Subscribe/Unsubscribe calls are non-blocking no-ops (loopback endpoint that answers nothing)",
                         "filter deadline shortened to 5-40 ms through hook H4 in the timer scenarios and in two thirds of the API stress runs",
                         "NewFilter (logs) and the rpc.Notifier subscriptions share the modelled structure but are not driven",
                         "memEventBus critical sections are atomic steps in FilterSystem.tla; their lock order is decided separately by BusLocks.tla"]
        return v.finish()
    finally:
        w.cleanup()
