"""C11: the staking precompile acts only for its immediate caller and mirrors native staking.

Design level: StakingCpc_mc (exhaustive, small constants; route independence, frame, forged-message grid).
Binding: twin executions of the real application (precompile call vs native messages from the same committed
state), validated line by line by TraceStakingCpc.tla; TLC is the judge."""
import json
import os
import shutil

import vlib
from vlib import Infra, Verdict, Work, log, register

CFG = "SPECIFICATION TraceSpec\nINVARIANT Coverage\nPOSTCONDITION TraceAccepted\nCHECK_DEADLOCK FALSE\n"

SIZES = {
    "quick": dict(traces=10, steps=12, grids=1, matrix=1, seeds=1, mc="StakingCpc_mc.cfg", mc_timeout=900),
    "thorough": dict(traces=60, steps=30, grids=6, matrix=2, seeds=3, mc="StakingCpc_mc_thorough.cfg", mc_timeout=7200),
}
CHUNK = 2500  # trace lines per TLC run


def run_mc(v, w, tier):
    d = w.sub("mc")
    vlib.stage_spec(d)
    r = vlib.tlc(d, "StakingCpc_mc", "StakingCpc_mc_witness.cfg", workers=1, timeout=900)
    if r["violated"]:
        raise Infra("design model StakingCpc_mc is vacuous (a method / route / forged case is unreachable):\n" + r["out"][-1500:])
    cfg = SIZES[tier]["mc"]
    r = vlib.tlc(d, "StakingCpc_mc", cfg, workers=16, timeout=SIZES[tier]["mc_timeout"])
    v.add_mc(r)
    if r["violated"]:
        raise Infra("design model StakingCpc_mc violates a law (specification bug, not a verdict):\n" + r["out"][-3000:])
    log("design run StakingCpc_mc/%s: %d distinct states, %d transitions, all laws hold" % (cfg, r["distinct"], r["generated"]))


def validate(d):
    return vlib.validate_trace(d, "TraceStakingCpc", CFG)


def split_traces(lines):
    """-> list of traces (each a list of lines starting with a Genesis line)."""
    out = []
    for ln in lines:
        if '"ev":"Genesis"' in ln:
            out.append([])
        out[-1].append(ln)
    return out


def chunks_of(traces):
    cur, n = [], 0
    for t in traces:
        if cur and n + len(t) > CHUNK:
            yield cur
            cur, n = [], 0
        cur.append(t)
        n += len(t)
    if cur:
        yield cur


def write_trace(d, traces):
    with open(os.path.join(d, "trace.ndjson"), "w") as f:
        for t in traces:
            f.write("\n".join(t) + "\n")


def corruptions(trace):
    """Binding self-test: four copies of a trace, each with ONE recorded field of the precompile clone changed."""
    out = []

    def first_twin(pred):
        for i, ln in enumerate(trace):
            e = json.loads(ln)
            if e["ev"] == "Twin" and pred(e):
                return i, e
        return None, None

    # 1. a delegation of the caller in the precompile clone's projection
    i, e = first_twin(lambda e: e["A"]["ok"] and e["ops"][0]["m"] == "delegate")
    if e:
        v = e["ops"][0]["v"]
        e["A"]["st"]["deleg"][e["caller"]][v] += 1
        e["cont"] = "B"
        out.append(("caller's delegation in the precompile clone +1", i, e, ("Cpc", "Logs")))
    # 2. the reward of another delegator in the precompile clone's projection
    i, e = first_twin(lambda e: True)
    if e:
        other = [d for d in e["A"]["st"]["rew"] if d != e["caller"] and d != e["sender"]][0]
        e["A"]["st"]["rew"][other]["v0"] += 1
        e["cont"] = "B"
        out.append(("reward of another account in the precompile clone +1", i, e, ("OnlyCaller",)))
    # 3. one receipt log dropped
    i, e = first_twin(lambda e: e["A"]["ok"] and len(e["A"]["logs"]) > 0)
    if e:
        e["A"]["logs"] = e["A"]["logs"][1:]
        out.append(("first receipt log of the precompile call dropped", i, e, ("Logs",)))
    # 4. the balance of the caller (fee accounting): one unit more than gasUsed x price explains
    i, e = first_twin(lambda e: e["A"]["ok"])
    if e:
        e["A"]["st"]["bal"][e["caller"]] += 1
        e["cont"] = "B"
        out.append(("caller's balance in the precompile clone +1", i, e, ("Cpc", "OnlyCaller")))
    # 5. a view value returned by eth_call
    for i, ln in enumerate(trace):
        e = json.loads(ln)
        if e["ev"] == "Views":
            q = [q for q in e["q"] if q["m"] == "delegationOf"][0]
            q["cpc"] += 1
            out.append(("delegationOf returned by eth_call +1", i, e, ("Views",)))
            break
    res = []
    for what, i, e, groups in out:
        t = list(trace)
        t[i] = json.dumps(e, separators=(",", ":"))
        res.append((what, i + 1, t, groups))
    return res


@register("C11")
def check_c11(pid, tier, seed, replay):
    v = Verdict(pid, tier, seed)
    w = Work(pid)
    try:
        if replay:
            d = w.sub("replay")
            shutil.copy(os.path.join(replay, "trace.ndjson"), d)
            r = validate(d)
            if r["err"]:
                log("replay: rejected at line %d: %s / %s" % r["err"])
                if r["err"][1] == "Model":
                    raise Infra("replay rejected by a Model law (machinery, not a verdict)")
                log("VIOLATION property=%s replay=%s" % (pid, replay))
                return 1
            log("replay: accepted")
            return 0
        vlib.build("vh_staking")
        run_mc(v, w, tier)
        sz = SIZES[tier]
        seeds = [seed] + [(seed * 7919 + 13 * k) % 2147483647 for k in range(1, sz["seeds"])]
        traces = []
        for s in seeds:
            d = w.sub("gen%d" % s)
            vlib.vh(["twin", "-seed", str(s), "-traces", str(sz["traces"]), "-steps", str(sz["steps"]), "-grids", str(sz["grids"]),
                     "-matrix", str(sz["matrix"]), "-out", d],
                    cmd="vh_staking", timeout=6000)
            traces += split_traces(vlib.read_lines(os.path.join(d, "trace.ndjson")))
        ntraces = len(traces)
        cov_total, twins, states, rejected = {}, 0, 0, 0
        sigs = set()
        bad_tids = set()
        for ci, chunk in enumerate(chunks_of(traces)):
            remaining = list(chunk)
            for rnd in range(4):
                if not remaining:
                    break
                dd = w.sub("val%d_%d" % (ci, rnd))
                write_trace(dd, remaining)
                r = validate(dd)
                states += r["states"]
                shutil.rmtree(dd, ignore_errors=True)
                if r["err"] is None:
                    for k, n in r["coverage"].items():
                        cov_total[k] = cov_total.get(k, 0) + n
                    twins += r["admitted"]
                    break
                line, group, detail = r["err"]
                # find the trace containing the line
                acc = 0
                for ti, t in enumerate(remaining):
                    if line <= acc + len(t):
                        break
                    acc += len(t)
                bad = remaining[ti]
                tid = json.loads(bad[0]).get("tid", "trace")
                lineno = line - acc
                ev = json.loads(bad[lineno - 1])
                what = ""
                if ev["ev"] == "Twin":
                    what = "%s by %s via %s: %s" % (ev["ops"][0]["m"], ev["caller"], ev["via"], json.dumps(ev["ops"])[:400])
                    if ev.get("seq"):
                        what += " | message: " + ", ".join(
                            ("%s(%s,%s)=%d native before/after tx %d/%d" % (q["m"], q["d"], q["v"], q["cpc"], q["natPre"], q["natPost"]))
                            if q["t"] == "view" else ev["ops"][q["i"] - 1]["m"] for q in ev["seq"])
                rp = vlib.save_replay(pid, tid, [(bad, "trace.ndjson")],
                                      "law %s/%s broken at line %d of this trace (seeds %s); re-check: bin/check %s --replay <this dir>\n%s"
                                      % (group, detail, lineno, seeds, pid, what))
                with open(os.path.join(rp, "tlc.out"), "w") as f:
                    f.write(r["out"][-20000:])
                if group == "Model":
                    raise Infra("the recorded NATIVE route is not a behaviour of StakingCpc.tla (%s at line %d of trace %s, kept in %s): "
                                "the model or the harness is wrong, not a verdict\n%s" % (detail, lineno, tid, rp, what))
                sig = "%s/%s" % (group, detail)
                if ev["ev"] == "Twin":
                    sig += ":%s" % ev["ops"][0]["m"]
                v.violation(sig, rp, "trace %s line %d: %s" % (tid, lineno, what))
                rejected += 1
                bad_tids.add(tid)
                remaining = remaining[:ti] + remaining[ti + 1:]
                if sig in sigs:
                    # the same law on the same method again: enough; what was not validated counts as not validated
                    rejected += len(remaining)
                    bad_tids.update(json.loads(t[0]).get("tid", "") for t in remaining)
                    remaining = []
                sigs.add(sig)
        v.cov["states"] += states
        v.cov["transitions"] += states
        v.cov["traces_validated_against_impl"] = ntraces - rejected
        v.cov["evaluations"] = twins
        # binding self-test on the first trace: every corruption must be rejected by a law that judges the precompile
        good = [t for t in traces if json.loads(t[0]).get("tid", "") not in bad_tids]
        first = good[0] if good else traces[0]
        tests = corruptions(first) if good else []
        if good and len(tests) < 4:
            raise Infra("self-test: the first trace offers too little to corrupt")
        if not good:
            log("binding self-test skipped: no trace of this run was accepted (violations are reported below)")
        notes = []
        for what, at, t, groups in tests:
            ds = w.sub("selftest")
            write_trace(ds, [t])
            rs = validate(ds)
            shutil.rmtree(ds, ignore_errors=True)
            if rs["err"] is None:
                raise Infra("binding vacuous: a trace with %s (line %d) was accepted" % (what, at))
            if rs["err"][1] not in groups:
                raise Infra("binding self-test: %s (line %d) rejected by an unexpected law %s/%s" % (what, at, rs["err"][1], rs["err"][2]))
            notes.append("%s -> %s/%s" % (what, rs["err"][1], rs["err"][2]))
        log("binding self-test: %d corrupted fields all rejected (%s)" % (len(notes), "; ".join(notes)))
        v.cov["selftest"] = notes
        classes = {k: n for k, n in cov_total.items() if not k.startswith("grid/") and k != "views"}
        grid = {k: n for k, n in cov_total.items() if k.startswith("grid/")}
        forged = {k: n for k, n in grid.items() if not _valid_combo(k)}
        v.cov["classes"] = classes
        v.cov["twin_pairs_validated"] = twins
        v.cov["view_comparisons"] = cov_total.get("views", 0)
        v.cov["forged_message_combos_distinct"] = len(forged)
        v.cov["forged_message_twins"] = sum(forged.values())
        v.cov["signed_valid_twins"] = sum(n for k, n in grid.items() if _valid_combo(k))
        seqviews = {k: n for k, n in classes.items() if k.startswith("seqview/")}
        v.cov["views_inside_messages_judged"] = sum(seqviews.values())
        after = sum(n for k, n in seqviews.items() if k.endswith("/after-mutations"))
        if after < 6 and not v.violations:
            raise Infra("the run judged only %d views made after a state-changing call of the same message" % after)
        funded = sum(n for k, n in classes.items() if k.startswith("transfer-funded-by-claimed-rewards/"))
        v.cov["transfer_funded_by_claimed_rewards_twins"] = funded
        if funded < 4 and not v.violations:
            raise Infra("the run executed only %d transfer() calls funded by the rewards they claim" % funded)
        relayed = sum(n for k, n in classes.items() if k.endswith("/relayed-by-contract-for-its-tx-origin"))
        v.cov["relayed_by_contract_for_its_tx_origin_twins"] = relayed
        if relayed < 8 and not v.violations:
            raise Infra("the run executed only %d signed messages relayed by a contract for their own tx origin" % relayed)
        v.cov["distinct_nontrivial"] = sum(n for k, n in classes.items() if k.endswith("/ok") and k.count("/") == 2) + sum(forged.values())
        v.cov["rule"] = ("twin pairs (precompile call on one clone, native messages on the other, same committed state) accepted by "
                         "TraceStakingCpc.tla; non-trivial = pairs whose call changed state (per method/via in classes) plus forged "
                         "signed-message pairs (must change nothing); counted by the trace specification")
        ex = [json.loads(x) for x in first if '"ev":"Twin"' in x][:3]
        v.cov["samples"] = [{"caller": e["caller"], "via": e["via"], "ops": e["ops"], "native": e["native"], "okA": e["A"]["ok"], "okB": e["B"]["ok"],
                             "logs": e["A"]["logs"]} for e in ex]
        v.cov["exhaustive"] = False
        v.assumptions = ["slashing-free histories, all validators bonded (1 share = 1 token)",
                         "reward growth per block is x/distribution's and only bounded (monotone, <= fees swept); what a withdrawal pays is the logged integer reward",
                         "numbers scaled below 2^31 (small-magnitude genesis, PowerReduction = 1, staking precompile deployed with 3..7 decimals or 18)",
                         "native twin of a contract caller = authz MsgExec by a relayer the contract granted at genesis",
                         "module events of zero amount have no log (the precompile skips them by design)"]
        return v.finish()
    finally:
        w.cleanup()


def _valid_combo(k):
    # grid/<md>/<caller>/<signer>/<chain>/<tamper>/<tx origin>
    p = k.split("/")
    return p[1] == p[2] == p[3] and p[4] == "ours" and p[5] == "none"
