"""Turns sampled evaluations of the real fee-market EndBlock into TLA+ modules (big numbers for Apalache, small ones for TLC)."""
import json

HEAD = '''---------------------------- MODULE %s ----------------------------
(* generated: values returned by the real x/feemarket EndBlock for sampled inputs *)
EXTENDS Integers, %s

\\* @type: (Int, Int, Int, Int, Int) => Bool;
SampleOk(sb, sused, smg, smp, r) ==
  LET u == IF smg >= 0 /\\ sused > smg THEN smg ELSE sused IN      \\* the block gas meter reports consumption up to its limit
%s

SamplesOk ==
  /\\ %s
%s
=============================================================================
'''
TLC_TAIL = '''
VARIABLE z
ZInit == z = 0
ZNext == UNCHANGED z
ZSpec == ZInit /\\ [][ZNext]_z
'''
BIG_BODY = '''  IF DefinedBig(u, smg) /\\ NextBig(sb, u, smg, smp) >= P256
    THEN r = -1       \\* the result does not fit 256 bits: the only case in which the code may refuse
    ELSE r >= 0 /\\ NextOkBig(sb, u, smg, smp, r)'''
SMALL_BODY = '''  r >= 0 /\\ NextOk(sb, u, smg, smp, r)'''


def conj(s):
    r = -1 if s["r"] == "panic" else int(s["r"])
    return "SampleOk(%s, %s, %s, %s, %s)" % (s["b"], s["used"], s["maxGas"], s["minP"], r)


def write_module(path, name, samples, big):
    with open(path, "w") as f:
        f.write(HEAD % (name, "FeeMarketBig" if big else "FeeMarket", BIG_BODY if big else SMALL_BODY,
                        "\n  /\\ ".join(conj(s) for s in samples) if samples else "TRUE", "" if big else TLC_TAIL))


def load(path):
    return [json.loads(l) for l in open(path)]
