"""C03 C15: StateDB.tla (abstract machine of the context-based StateDB), StateDBLayers.tla (the layered
mechanism, refinement), TraceStateDB.tla (trace validation of the real x/evm/vm StateDB driven directly),
plus the transaction-level laws of EthTx.tla / Evm.tla that belong to these properties."""
import json
import os
import subprocess

import vlib
import checks_ethtx
from vlib import Infra, Verdict, Work, log, register

# law groups of TraceStateDB.tla
FOCUS = {
    "C03": ["Op", "Snapshot", "Revert", "Commit", "Discard"],
    "C15": ["Guard", "Delete", "Commit"],
}
# single laws (by detail name) that also belong to the property, whatever the operation they show up at
FOCUS_DETAILS = {
    "C03": [],
    "C15": ["Empty", "Exist", "HasSuicided", "account-record", "account-kind", "balance-other-denom"],
}
# law groups of TraceEthTx.tla (whole transactions through the real EVM)
FOCUS_TX = {
    "C03": ["Frames", "Storage", "Logs", "Code", "Exists", "Bal2"],
    "C15": ["Exists", "Bal2", "Outside", "Code", "Storage"],
}
WITNESSES = ["W_NoCommitPanic", "W_NoCommitDelete", "W_NoGuardPanic", "W_NoLockPanic", "W_NoDeepRevert"]
SIZES = {"quick": dict(traces=150, chunk=150, maxops=25, tx=dict(traces=15, blocks=5)),
         "thorough": dict(traces=4000, chunk=400, maxops=40, tx=dict(traces=300, blocks=8))}


def cfg_text(pid):
    q = lambda xs: ", ".join('"%s"' % g for g in xs)
    return ("SPECIFICATION TraceSpec\nCONSTANT Programs <- NoPrograms\nCONSTANT Focus = {%s}\nCONSTANT FocusDetails = {%s}\n"
            "INVARIANT Coverage\nPOSTCONDITION TraceAccepted\nCHECK_DEADLOCK FALSE\n" % (q(FOCUS[pid]), q(FOCUS_DETAILS[pid])))


def run_design(v, w, tier):
    d = w.sub("mc")
    vlib.stage_spec(d)
    # vacuity guards, one TLC run each (stop at the first witness), in parallel
    procs = []
    for wn in WITNESSES:
        with open(os.path.join(d, "StateDB_mc_witness.cfg")) as f:
            base = [ln for ln in f.read().splitlines() if not ln.startswith("INVARIANT")]
        cfg = "w_%s.cfg" % wn
        with open(os.path.join(d, cfg), "w") as f:
            f.write("\n".join(base + ["INVARIANT " + wn]) + "\n")
        procs.append((wn, subprocess.Popen(["timeout", "600", "tlc", "-workers", "2", "-metadir", os.path.join(d, "meta-" + wn), "-config", cfg,
                                            "StateDB_mc.tla"], cwd=d, stdout=subprocess.PIPE, stderr=subprocess.STDOUT, text=True)))
    for wn, p in procs:
        out = p.communicate()[0]
        if ("Invariant %s is violated" % wn) not in out:
            raise Infra("design model StateDB_mc is vacuous: witness %s not reachable\n%s" % (wn, out[-1500:]))
    for f in os.listdir(d):
        if "_TTrace_" in f:
            os.remove(os.path.join(d, f))
    cfg = "StateDB_mc.cfg" if tier == "quick" else "StateDB_mc_thorough.cfg"
    r = vlib.tlc(d, "StateDB_mc", cfg, workers=16, timeout=7000)
    v.add_mc(r)
    if r["violated"]:
        raise Infra("design model StateDB_mc violates a law (specification bug):\n" + r["out"][-3000:])
    log("design run StateDB_mc/%s: %d distinct states, %d transitions, all laws hold; %d witnesses reachable" % (cfg, r["distinct"], r["generated"], len(WITNESSES)))
    # the layered mechanism refines the abstract machine
    if os.path.exists(os.path.join(d, "StateDBLayers.tla")):
        cfg = "StateDBLayers_mc.cfg" if tier == "quick" else "StateDBLayers_mc_thorough.cfg"
        r = vlib.tlc(d, "StateDBLayers", cfg, workers=16, timeout=7000)
        v.add_mc(r)
        if r["violated"]:
            raise Infra("StateDBLayers does not refine StateDB (specification bug):\n" + r["out"][-3000:])
        log("refinement run StateDBLayers/%s: %d distinct states, %d transitions" % (cfg, r["distinct"], r["generated"]))


def corrupt(pid, lines):
    """Binding self-test: change one recorded observation the property's laws depend on."""
    out = list(lines)
    for i, ln in enumerate(out):
        e = json.loads(ln)
        if e["ev"] != "Op":
            continue
        if pid == "C03" and e["o"]["op"] == "Revert" and e["res"] == "ok":
            e["obs"]["refund"] += 1
        elif pid == "C15" and e["o"]["op"] == "Commit" and e["res"] == "ok":
            e["pobs"]["accts"]["z0"]["ex"] = not e["pobs"]["accts"]["z0"]["ex"]
        else:
            continue
        out[i] = json.dumps(e)
        return out, i + 1
    return None, 0


def split_traces(lines):
    traces, cur = [], []
    for ln in lines:
        if '"ev":"Init"' in ln and cur:
            traces.append(cur)
            cur = []
        cur.append(ln)
    if cur:
        traces.append(cur)
    return traces


def validate_lines(w, name, lines, pid):
    d = w.sub(name)
    with open(os.path.join(d, "trace.ndjson"), "w") as f:
        f.write("\n".join(lines) + "\n")
    return vlib.validate_trace(d, "TraceStateDB", cfg_text(pid))


def sdb_binding(v, pid, w, focus, sz, seed):
    d = w.sub("gen")
    vlib.vh(["gen", "-seed", str(seed), "-traces", str(sz["traces"]), "-maxops", str(sz["maxops"]), "-out", d], cmd="vh_sdb", timeout=7000)
    traces = split_traces(vlib.read_lines(os.path.join(d, "trace.ndjson")))
    cov_total = {}
    accepted = 0
    nontrivial = 0
    for t in traces:
        ops = [json.loads(x)["o"]["op"] for x in t[1:]]
        # non-trivial: a revert after at least one write since the snapshot, or a commit that follows a write
        if ("Revert" in ops or "Commit" in ops) and len(ops) >= 4:
            nontrivial += 1
    chunk = sz["chunk"]
    idx = 0
    ci = 0
    while idx < len(traces):
        part = traces[idx:idx + chunk]
        idx += chunk
        ci += 1
        guard = 0
        while part and guard < 4:
            guard += 1
            flat = [ln for t in part for ln in t]
            r = validate_lines(w, "val%d_%d" % (ci, guard), flat, pid)
            v.cov["states"] += r["states"]
            v.cov["transitions"] += r["states"]
            if r["err"] is None:
                for k, n in r["coverage"].items():
                    cov_total[k] = cov_total.get(k, 0) + n
                v.cov.setdefault("skipped_out_of_focus", []).extend(["%s/%s" % (g, dt) for _, g, dt in r["skipped"]][:20])
                accepted += len(part)
                break
            line, group, detail = r["err"]
            # which trace of the chunk
            n = 0
            for ti, t in enumerate(part):
                if line <= n + len(t):
                    break
                n += len(t)
            bad = part[ti]
            tid = json.loads(bad[0]).get("tid", "trace")
            rp = vlib.save_replay(pid, tid, [(bad, "trace.ndjson")],
                                  "StateDB trace: law %s/%s broken at line %d (seed %d); re-check: bin/check %s --replay <this dir>"
                                  % (group, detail, line - n, seed, pid))
            with open(os.path.join(rp, "tlc.out"), "w") as f:
                f.write(r["out"][-20000:])
            v.violation("%s/%s" % (group, detail), rp, "trace %s line %d: %s" % (tid, line - n, bad[line - 1 - n][:400]))
            accepted += ti
            part = part[ti + 1:]
            if len(set(x[0] for x in v.violations)) < len(v.violations):
                part = []
    v.cov["traces_validated_against_impl"] += accepted
    v.cov["evaluations"] += len(traces)
    # binding self-test
    done = False
    for t in traces:
        bad, at = corrupt(pid, t)
        if bad:
            rs = validate_lines(w, "selftest", bad, pid)
            if rs["err"] is None:
                raise Infra("binding self-test failed: a StateDB trace with a corrupted observation (line %d) was accepted" % at)
            log("binding self-test (StateDB): corrupted line %d rejected with %s/%s" % (at, rs["err"][1], rs["err"][2]))
            v.cov["selftest"] = "corrupted observation at line %d rejected by law %s/%s" % (at, rs["err"][1], rs["err"][2])
            done = True
            break
    if not done:
        raise Infra("binding self-test: no trace with a %s to corrupt" % ("Revert" if pid == "C03" else "Commit"))
    return cov_total, nontrivial, traces[0]


@register("C03", "C15")
def check_statedb(pid, tier, seed, replay):
    v = Verdict(pid, tier, seed)
    w = Work(pid)
    try:
        if replay:
            if os.path.exists(os.path.join(replay, "vectors.ndjson")):
                import checks_cpc
                return checks_cpc.c03_replay(replay)
            if os.path.exists(os.path.join(replay, "programs.json")):
                r = checks_ethtx.validate_dir_copy(w, replay, FOCUS_TX[pid])
            else:
                r = validate_lines(w, "replay", vlib.read_lines(os.path.join(replay, "trace.ndjson")), pid)
            if r["err"]:
                log("replay: rejected at line %d: %s / %s" % r["err"])
                log("VIOLATION property=%s replay=%s" % (pid, replay))
                return 1
            log("replay: accepted")
            return 0
        vlib.build("vh_sdb")
        vlib.build("vh")
        run_design(v, w, tier)
        sz = SIZES[tier]
        cov, nontrivial, first = sdb_binding(v, pid, w, FOCUS[pid], sz, seed)
        covtx, _ = checks_ethtx.ethtx_binding(v, pid, w, FOCUS_TX[pid], sz["tx"], seed, corrupt_fn=None, tag="tx")
        v.cov["distinct_nontrivial"] = nontrivial
        v.cov["classes"] = dict(cov, **covtx)
        if pid == "C03":
            # stateful precompile calls inside failing / completing call frames (RevertTree.tla, executed as real transactions)
            import checks_cpc
            rv = checks_cpc.c03_revert_vectors(v, w, tier, seed, pid)
            v.cov["states"] += rv.get("states", 0)
            v.cov["transitions"] += rv.get("transitions", 0)
            v.cov["traces_validated_against_impl"] += rv.get("accepted", 0)
            v.cov["evaluations"] += rv.get("vectors", 0)
            v.cov["distinct_nontrivial"] += rv.get("distinct_nontrivial", 0)
            v.cov["classes"].update({"revert-tree." + str(k): n for k, n in (rv.get("classes") or {}).items()})
            v.cov["revert_tree"] = {"rule": rv.get("rule"), "selftest": rv.get("selftest")}
        v.cov["rule"] = ("seeded random operation sequences on the real StateDB (vm.StateDB interface, writes of other modules through "
                         "GetCurrentContext, nested Snapshot/RevertToSnapshot, Commit/Discard; accounts of every kind), every getter "
                         "observed after every operation; non-trivial = traces with >= 4 operations containing a revert or a commit; "
                         "plus whole transactions through the real EVM (EthTx histories) with this property's law groups in focus")
        v.cov["samples"] = [json.loads(x)["o"] for x in first[1:8]]
        v.assumptions = ["x/bank, x/auth (vesting lock arithmetic) and the cache-multistore are trusted",
                         "numbers scaled below 2^31", "operation sequences are the generator's; the EVM's own call patterns are covered by the EthTx histories"]
        return v.finish()
    finally:
        w.cleanup()
