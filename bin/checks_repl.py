"""C01: Replicas.tla (design: confluence of the commit in the hidden inputs, with the two repaired deviations as
refutable named modes) + TraceReplicas.tla (the same history on several instances of the real application)."""
import json
import os

import vlib
from vlib import Infra, Verdict, Work, log, register

SIZES = {"quick": dict(n=12, blocks=8), "thorough": dict(n=500, blocks=12)}
CFG = ("SPECIFICATION TraceSpec\nCONSTANT Focus <- AllGroups\nINVARIANT Coverage\nPOSTCONDITION TraceAccepted\nCHECK_DEADLOCK FALSE\n")


def run_design(v, w):
    d = w.sub("mc")
    vlib.stage_spec(d)
    r = vlib.tlc(d, "Replicas", "Replicas_mc.cfg", workers=8, timeout=1800)
    v.add_mc(r)
    if r["violated"]:
        raise Infra("Replicas.tla: Agree fails in the specified mode (specification bug):\n" + r["out"][-2000:])
    for dev in ("maporder", "wallclock", "sharedscratch"):
        r2 = vlib.tlc(d, "Replicas", "Replicas_dev_%s.cfg" % dev, workers=4, timeout=1800)
        if not r2["violated"]:
            raise Infra("Replicas.tla cannot see the %s divergence: the design model is vacuous" % dev)
    log("design run Replicas: Agree holds for the specified commit (%d distinct states, %d transitions); the three named deviations (map order, wall clock, scratch memory shared with concurrent readers) are refuted"
        % (r["distinct"], r["generated"]))


def split(lines):
    out, cur = [], []
    for ln in lines:
        if '"ev":"History"' in ln and cur:
            out.append(cur)
            cur = []
        cur.append(ln)
    if cur:
        out.append(cur)
    return out


def validate(w, name, lines):
    d = w.sub(name)
    with open(os.path.join(d, "trace.ndjson"), "w") as f:
        f.write("\n".join(lines) + "\n")
    return vlib.validate_trace(d, "TraceReplicas", CFG)


@register("C01")
def check_repl(pid, tier, seed, replay):
    v = Verdict(pid, tier, seed)
    w = Work(pid)
    try:
        if replay:
            r = validate(w, "replay", vlib.read_lines(os.path.join(replay, "trace.ndjson")))
            if r["err"]:
                log("replay: rejected at line %d: %s / %s" % r["err"])
                log("VIOLATION property=%s replay=%s" % (pid, replay))
                return 1
            log("replay: accepted")
            return 0
        vlib.build("vh_repl")
        run_design(v, w)
        sz = SIZES[tier]
        d = w.sub("gen")
        vlib.vh(["run", "-seed", str(seed), "-n", str(sz["n"]), "-blocks", str(sz["blocks"]), "-out", d], cmd="vh_repl", timeout=7000)
        hists = split(vlib.read_lines(os.path.join(d, "trace.ndjson")))
        stats = json.load(open(os.path.join(d, "stats.json")))
        cov = {}
        accepted = 0
        part = hists
        guard = 0
        while part and guard < 4:
            guard += 1
            flat = [ln for t in part for ln in t]
            r = validate(w, "val%d" % guard, flat)
            v.cov["states"] += r["states"]
            v.cov["transitions"] += r["states"]
            if r["err"] is None:
                for k, n in r["coverage"].items():
                    cov[k] = cov.get(k, 0) + n
                accepted += len(part)
                break
            line, group, detail = r["err"]
            n = 0
            for ti, t in enumerate(part):
                if line <= n + len(t):
                    break
                n += len(t)
            bad = part[ti]
            tid = json.loads(bad[0]).get("tid", "hist")
            rp = vlib.save_replay(pid, tid, [(bad, "trace.ndjson")],
                                  "replicas disagree: %s/%s at line %d (seed %d); re-check: bin/check %s --replay <this dir>" % (group, detail, line - n, seed, pid))
            v.violation("%s/%s" % (group, detail.split("-differs-on-")[0]), rp, "history %s line %d: %s" % (tid, line - n, bad[line - 1 - n][:300]))
            accepted += ti
            part = part[ti + 1:]
        v.cov["traces_validated_against_impl"] += accepted
        v.cov["evaluations"] += len(hists)
        # self-test: one replica reports another app hash / another event digest
        t = list(hists[0])
        done = False
        for i, ln in enumerate(t):
            e = json.loads(ln)
            if e["ev"] == "Block" and e["rep"] == "r3" and e["txs"]:
                e["txs"][0]["events"] = "0" * 24
                t[i] = json.dumps(e)
                done = True
                break
        if not done:
            for i, ln in enumerate(t):
                e = json.loads(ln)
                if e["ev"] == "Block" and e["rep"] == "r2":
                    e["appHash"] = "00" + e["appHash"][2:]
                    t[i] = json.dumps(e)
                    break
        rs = validate(w, "selftest", t)
        if rs["err"] is None:
            raise Infra("binding self-test failed: a history with a diverging replica was accepted")
        log("binding self-test: diverging replica rejected with %s/%s" % (rs["err"][1], rs["err"][2]))
        v.cov["selftest"] = "altered replica record rejected by law %s/%s" % (rs["err"][1], rs["err"][2])
        v.cov["classes"] = dict(cov, **{"gen." + k: n for k, n in stats.items()})
        v.cov["distinct_nontrivial"] = sum(n for k, n in cov.items() if k.startswith("txs.") and k != "txs.0")
        v.cov["rule"] = ("seeded block histories (Ethereum txs over the contract menu incl. several self-destructs with leftovers in one tx, creations, "
                         "invalid and garbage txs, Cosmos sends, staking messages that move validator power, ERC-20 precompile calls), each executed on 4-5 "
                         "instances: generator, fresh instance, other node options + GOMAXPROCS=1, reload from a database copy mid-history, a child process "
                         "with another environment; non-trivial = blocks with at least one transaction, compared on every replica")
        v.cov["samples"] = [json.loads(x) for x in hists[0][1:3]]
        v.assumptions = ["all replicas run on this machine (other processes, not other hardware)", "CometBFT and the IAVL store are outside the comparison except through the app hash"]
        return v.finish()
    finally:
        w.cleanup()
