"""Mempool admission (Mempool.tla / TraceMempool.tla): a sub-check shared by C05 (a transaction rejected at admission costs nothing and
changes nothing), C06 (nonce = sequence at admission) - CheckTx / ReCheckTx of generated Ethereum transactions interleaved with blocks,
the volatile check state projected after every call."""
import concurrent.futures
import json
import os

import vlib
import checks_ethtx
from vlib import Infra, log

CFG = "SPECIFICATION TraceSpec\nCONSTANT Programs <- TracePrograms\nINVARIANT Coverage\nPOSTCONDITION TraceAccepted\nCHECK_DEADLOCK FALSE\n"
SIZES = {"quick": dict(traces=24, rounds=6), "thorough": dict(traces=600, rounds=8)}


def mempool_binding(v, pid, w, tier, seed, chunk=12):
    sz = SIZES[tier]
    d = w.sub("mp-gen")
    vlib.vh(["mempool", "-seed", str(seed), "-traces", str(sz["traces"]), "-rounds", str(sz["rounds"]), "-out", d], timeout=7000)
    lines = vlib.read_lines(os.path.join(d, "trace.ndjson"))
    programs = json.load(open(os.path.join(d, "programs.json")))
    traces = checks_ethtx._split_traces(lines)
    chunks = [traces[i:i + chunk] for i in range(0, len(traces), chunk)]

    def run_chunk(args):
        ci, part = args
        out = dict(states=0, cov={}, viol=[])
        rounds = 0
        while part and rounds < 3:
            rounds += 1
            dd = w.sub("mp-val%d_%d" % (ci, rounds))
            checks_ethtx._write_chunk(dd, part, programs)
            r = vlib.validate_trace(dd, "TraceMempool", CFG)
            out["states"] += r["states"]
            if r["err"] is None:
                out["cov"] = r["coverage"]
                break
            line, group, detail = r["err"]
            n = 0
            for ti, t in enumerate(part):
                if line <= n + len(t):
                    break
                n += len(t)
            out["viol"].append((group, detail, part[ti], line - n))
            part = part[:ti] + part[ti + 1:]
        return out

    cov = {}
    rejected = 0
    with concurrent.futures.ThreadPoolExecutor(max_workers=6) as ex:
        for res in ex.map(run_chunk, list(enumerate(chunks))):
            v.cov["states"] += res["states"]
            v.cov["transitions"] += res["states"]
            for k, n in res["cov"].items():
                cov[k] = cov.get(k, 0) + n
            for group, detail, bad, at in res["viol"]:
                rejected += 1
                tid = json.loads(bad[0]).get("tid", "trace")
                progs = {k: pv for k, pv in programs.items() if k.startswith(tid + "_")}
                rp = vlib.save_replay(pid, "mempool_" + tid, [(bad, "trace.ndjson"), ([json.dumps(progs)], "programs.json"), (["mempool"], "kind.txt")],
                                      "mempool admission: law %s/%s broken at line %d (seed %d)" % (group, detail, at, seed))
                v.violation("Mempool%s/%s" % (group, detail), rp, "history %s line %d: %s" % (tid, at, bad[at - 1][:300]))
    v.cov["traces_validated_against_impl"] += len(traces) - rejected
    v.cov["evaluations"] += len(traces)
    if not rejected and not (cov.get("new.accepted") and cov.get("new.admission") and cov.get("recheck.accepted")):
        # (with rejected histories the counters of their chunks are missing: the violations speak for themselves)
        raise Infra("mempool binding: an outcome class never occurred: %s" % cov)
    # self-test: a refused CheckTx that is reported to have changed the check state
    done = False
    for t in traces:
        tt = list(t)
        for i, ln in enumerate(tt):
            e = json.loads(ln)
            if e["ev"] == "Check" and not e["got"]["accepted"]:
                f = e["t"]["from"]
                e["chk"]["accts"][f]["seq"] += 1
                tt[i] = json.dumps(e)
                done = True
                break
        if done:
            dd = w.sub("mp-selftest")
            checks_ethtx._write_chunk(dd, [tt], programs)
            r = vlib.validate_trace(dd, "TraceMempool", CFG)
            if r["err"] is None:
                raise Infra("mempool binding self-test failed: a refused CheckTx with a changed check state was accepted")
            log("mempool binding self-test: altered check state after a refused CheckTx rejected with %s/%s" % (r["err"][1], r["err"][2]))
            break
    log("mempool admission: %d histories, classes %s" % (len(traces), cov))
    return {"mempool." + k: n for k, n in cov.items()}


def mempool_replay(w, replay):
    d = w.sub("mp-replay")
    import shutil
    for f in ("trace.ndjson", "programs.json"):
        shutil.copy(os.path.join(replay, f), d)
    return vlib.validate_trace(d, "TraceMempool", CFG)
