"""C07 (Lanes.tla) and C16 (Vauth.tla): the `lanes` family.

C07  design run Lanes_mc (every transaction shape of the factored space is a state; the property's sentences are
     invariants; the post-condition writes the space as B1 vectors) -> the harness builds a real transaction per
     vector and runs it through the real application in the vector's mode -> TraceLanes.tla judges every answer.
C16  design run Vauth_mc (exhaustive, small constants) -> operation sequences (TLC -simulate behaviours + a
     deterministic enumeration) are executed against the real application with real keys -> TraceVauth.tla judges
     every step (outcome class, proof store, balances in units of the submission cost, supply, account kinds)."""
import json
import os
import re
import shutil
from concurrent.futures import ThreadPoolExecutor

import vlib
from vlib import Infra, Verdict, Work, log, register

LAW_RE = re.compile(r'"LAWBROKEN\|(\d+)\|([^|"]*)\|([^"]*)"')
COV_RE = re.compile(r'"COVERAGE\|(\d+)\|(\{.*\})"')
SHARDS = 6


def parse_trace_run(out):
    errs = [(int(a), g, d) for a, g, d in LAW_RE.findall(out)]
    m = COV_RE.findall(out)
    cov, nerr = {}, None
    if m:
        nerr = int(m[-1][0])
        cov = json.loads(m[-1][1].replace('\\"', '"'))
    return errs, cov, nerr


def run_trace_spec(d, module, cfg_text, timeout=3000):
    """Validate d/trace.ndjson with a non-stopping trace spec; returns (errs, coverage, tlc result)."""
    vlib.stage_spec(d)
    cfg = module + "_run.cfg"
    with open(os.path.join(d, cfg), "w") as f:
        f.write(cfg_text)
    r = vlib.tlc(d, module, cfg, workers=1, timeout=timeout)
    errs, cov, nerr = parse_trace_run(r["out"])
    if r["violated"] or not r["ok"]:
        raise Infra("trace specification %s did not consume the trace:\n%s" % (module, r["out"][-3000:]))
    if nerr is None:
        raise Infra("trace specification %s printed no coverage line:\n%s" % (module, r["out"][-3000:]))
    if nerr != len(errs):
        raise Infra("trace specification %s: %d broken laws counted, %d reported" % (module, nerr, len(errs)))
    return errs, cov, r


# ----------------------------------------------------------------------------------------------
# C07
# ----------------------------------------------------------------------------------------------

LANES_CFG = ("SPECIFICATION TraceSpec\nCONSTANTS\n  MaxD = 0\n  PairD = 0\n  PairLeaves = {}\n  TripleElemSet = {}\n  FeeVars = {}\n  GasVars = {}\n"
             "  CheckIds = %s\nINVARIANT Coverage\nPOSTCONDITION TraceAccepted\nCHECK_DEADLOCK FALSE\n")
PRE_ANTE = ("undecodable-ext", "no-messages")


def lanes_run_vectors(w, vectors_path, name, shards=SHARDS):
    """Run the harness over a vector file (sharded over processes); returns trace lines: vectors in id order, then blocks."""
    d = w.sub(name)
    n = sum(1 for _ in open(vectors_path))
    shards = max(1, min(shards, n // 200 or 1))

    def one(i):
        out = os.path.join(d, "trace%d.ndjson" % i)
        vlib.vh(["lanes", "-vectors", vectors_path, "-out", out, "-shard", str(i), "-of", str(shards)], cmd="vh_lanes")
        return out

    with ThreadPoolExecutor(max_workers=shards) as ex:
        outs = list(ex.map(one, range(shards)))
    vec, blocks = [], []
    for o in outs:
        for ln in vlib.read_lines(o):
            (vec if '"ev":"Vector"' in ln else blocks).append(ln)
    vec.sort(key=lambda ln: json.loads(ln)["vec"])
    return vec + blocks


def lanes_validate(w, name, lines, vectors_path=None):
    d = w.sub(name)
    with open(os.path.join(d, "trace.ndjson"), "w") as f:
        f.write("\n".join(lines) + "\n")
    if vectors_path:
        shutil.copy(vectors_path, os.path.join(d, "vectors.ndjson"))
    return run_trace_spec(d, "TraceLanes", LANES_CFG % ("TRUE" if vectors_path else "FALSE"))


def lanes_replay(pid, w, replay):
    """Re-run the saved vectors against the current tree and let TLC judge again."""
    vlib.build("vh_lanes")
    lines = lanes_run_vectors(w, os.path.join(replay, "vectors.ndjson"), "replay-run", shards=1)
    errs, cov, _ = lanes_validate(w, "replay-val", lines)
    if errs:
        for ln, g, dt in errs[:10]:
            log("replay: law %s/%s broken by %s" % (g, dt, lines[ln - 1][:400]))
        log("VIOLATION property=%s replay=%s" % (pid, replay))
        return 1
    log("replay: all %d vectors accepted by TraceLanes" % len(lines))
    return 0


@register("C07")
def check_c07(pid, tier, seed, replay):
    v = Verdict(pid, tier, seed)
    w = Work(pid)
    try:
        if replay:
            return lanes_replay(pid, w, replay)
        vlib.build("vh_lanes")
        # 1. design run: the whole shape space, the property's sentences as invariants, vectors written by TLC
        d = w.sub("mc")
        vlib.stage_spec(d)
        cfg = "Lanes_mc.cfg" if tier == "quick" else "Lanes_mc_thorough.cfg"
        r = vlib.tlc(d, "Lanes_mc", cfg, workers=1, timeout=3000)
        if r["violated"]:
            raise Infra("design model Lanes_mc violates one of its own laws / is vacuous (specification bug):\n" + r["out"][-3000:])
        v.add_mc(r)
        m = re.findall(r'<<"VECTORS", (\d+)>>', r["out"])
        vectors_path = os.path.join(d, "vectors.ndjson")
        if not m or not os.path.exists(vectors_path):
            raise Infra("design run wrote no vectors:\n" + r["out"][-2000:])
        nvec = int(m[-1])
        if nvec != r["distinct"]:
            raise Infra("design run: %d vectors but %d states" % (nvec, r["distinct"]))
        log("design run Lanes_mc/%s: %d shapes = %d states, all sentences of the property hold, every verdict/reason class inhabited" % (cfg, nvec, r["distinct"]))
        vectors = [json.loads(x) for x in vlib.read_lines(vectors_path)]
        # 2. B1: every vector against the real application
        lines = lanes_run_vectors(w, vectors_path, "run")
        nlines = sum(1 for x in lines if '"ev":"Vector"' in x)
        if nlines != nvec:
            raise Infra("harness answered %d of %d vectors" % (nlines, nvec))
        # 3. TLC judges
        errs, cov, rt = lanes_validate(w, "val", lines, vectors_path)
        v.cov["states"] += rt["distinct"]
        v.cov["transitions"] += rt["generated"]
        domain = [e for e in errs if e[1] == "Domain"]
        if domain:
            raise Infra("trace does not answer the enumerated vectors: line %d %s" % (domain[0][0], domain[0][2]))
        by_sig = {}
        for ln, g, dt in errs:
            by_sig.setdefault("%s/%s" % (g, dt), []).append(ln)
        for sig, lns in sorted(by_sig.items()):
            bad = [lines[i - 1] for i in lns[:20]]
            ids = [json.loads(x).get("vec") for x in bad if '"ev":"Vector"' in x]
            vecs = [json.dumps(vectors[i - 1]) for i in ids if i]
            if not vecs:  # a Block line: replay the vectors of that block
                b = json.loads(bad[0])
                vecs = [json.dumps(x) for x in vectors[b["from"] - 1:b["to"]] if x["shape"]["mode"] == "deliver"]
            name = re.sub(r"[^A-Za-z0-9_.-]", "_", sig)[:80]
            rp = vlib.save_replay(pid, name, [(vecs, "vectors.ndjson"), (bad, "trace.ndjson")],
                                  "law %s broken by %d vector(s) (first ones saved); vectors.ndjson = the shapes, trace.ndjson = what the real "
                                  "application answered; re-run against the current tree: bin/check %s --replay <this dir>" % (sig, len(lns), pid))
            modes = sorted({json.loads(lines[i - 1]).get("shape", {}).get("mode", "block") for i in lns})
            v.violation(sig, rp, "%d vector(s) in modes %s, e.g. %s" % (len(lns), ",".join(modes), bad[0][:600]))
        ok_vectors = nvec - sum(1 for ln, g, dt in errs if '"ev":"Vector"' in lines[ln - 1])
        v.cov["traces_validated_against_impl"] = ok_vectors
        v.cov["evaluations"] = nvec
        v.cov["classes"] = cov
        nontriv = sum(1 for x in vectors if x["expect"]["reason"] not in PRE_ANTE)
        v.cov["distinct_nontrivial"] = nontriv
        v.cov["rule"] = ("one real transaction per shape x mode of the model's factored shape space (DESIGN.md C07); non-trivial = vectors "
                         "that reach the composed ante handler (not refused by decoding / the empty-message rule); classes = "
                         "lane.model-verdict.real-outcome.mode counted by TraceLanes")
        v.cov["exhaustive"] = not errs
        v.cov["samples"] = [json.loads(x) for x in (lines[0], lines[len(lines) // 3], lines[nvec - 1])]
        lenient = cov.get("eth.any.accepted.recheck", 0) + cov.get("cosmos.any.accepted.recheck", 0)
        v.cov["recheck_only_acceptances"] = lenient
        # 4. binding self-test: flip the recorded verdict of one vector whose verdict the model constrains
        k = next(i for i, x in enumerate(vectors) if x["expect"]["verdict"] == "accept" and x["expect"]["lane"] == "eth")
        j = next(i for i, x in enumerate(vectors) if x["expect"]["verdict"] == "reject" and x["expect"]["reason"] == "eth-nested-in-exec")
        sub = []
        for n_, i in enumerate(sorted(set(list(range(0, 50)) + [k, j]))):
            e = json.loads(lines[i])
            if i in (k, j):
                e["got"]["accepted"] = not e["got"]["accepted"]
            sub.append((i, json.dumps(e)))
        errs2, _, _ = lanes_validate(w, "selftest", [x for _, x in sub])
        flipped = {n_ + 1 for n_, (i, _) in enumerate(sub) if i in (k, j)}
        already = {n_ + 1 for n_, (i, _) in enumerate(sub) if (i + 1) in {e[0] for e in errs}} - flipped
        if {e[0] for e in errs2} - already != flipped - {n_ + 1 for n_, (i, _) in enumerate(sub) if (i + 1) in {e[0] for e in errs}}:
            raise Infra("binding self-test failed: flipped verdicts at lines %s, TLC rejected lines %s" % (sorted(flipped), sorted(e[0] for e in errs2)))
        errs2 = [e for e in errs2 if e[0] in flipped]
        v.cov["selftest"] = "flipped the recorded verdict of vectors %d and %d: TLC rejected exactly those (%s)" % (
            k + 1, j + 1, "; ".join("%s/%s" % (g, dt) for _, g, dt in errs2))
        log("binding self-test: " + v.cov["selftest"])
        v.assumptions = [
            "re-check mode: a shape refused in check mode never reaches re-check (same bytes), so its re-check outcome is unconstrained ('any'); "
            "%d such shapes are in fact accepted by the real re-check (validate-basic skipped by design)" % lenient,
            "wrappers other than authz MsgExec / MsgGrant (gov proposals, ICA host) are outside the property's text and the shape alphabet",
            "Cosmos-lane acceptance rules not stated by the property (signatures required in every mode, dynamic-fee extension option only) "
            "are documented SDK/app rules, named as such in Lanes.tla",
            "lane markers are observable only where events are returned (simulate, deliver); check/re-check are judged on the verdict alone",
        ]
        return v.finish()
    finally:
        w.cleanup()


# ----------------------------------------------------------------------------------------------
# C16
# ----------------------------------------------------------------------------------------------

VAUTH_CONSTS = ('CONSTANTS\n  Funded = {"s0", "s1", "s2"}\n  Fresh = {"t0", "t1"}\n  Keyless = {"z0", "zf", "zm", "zp"}\n  Funder = "s0"\n')
VAUTH_TRACE_CFG = ("SPECIFICATION TraceSpec\n" + VAUTH_CONSTS + "  InitialUnits = {}\nINVARIANT Coverage\nPOSTCONDITION TraceAccepted\nCHECK_DEADLOCK FALSE\n")
VAUTH_WITNESSES = ["W_SubmitOk", "W_SubmitFailed", "W_SubmitPoor", "W_CreateFailed", "W_Vesting1", "W_Vesting23", "W_Exhausted"]
VAUTH_SIZES = {"quick": dict(sim_num=14, per_family=10, depth=8), "thorough": dict(sim_num=200, per_family=24, depth=10)}
BEH_RE = re.compile(r'"BEHAVIOUR\|(\[.*\])"')


def vauth_design(v, w, tier):
    d = w.sub("mc")
    vlib.stage_spec(d)
    # vacuity: each witness predicate must be reachable (its negation, checked as an invariant, must be violated)
    base = open(os.path.join(d, "Vauth_mc_witness.cfg")).read()
    head = base[:base.index("INVARIANTS")]
    def witness(wname):
        dw = w.sub("w-" + wname)  # own directory: the runs go in parallel
        vlib.stage_spec(dw)
        with open(os.path.join(dw, "w_%s.cfg" % wname), "w") as f:
            f.write(head + "INVARIANT %s\nCHECK_DEADLOCK FALSE\n" % wname)
        return wname, vlib.tlc(dw, "Vauth_mc", "w_%s.cfg" % wname, workers=1, timeout=600)

    with ThreadPoolExecutor(max_workers=4) as ex:
        for wname, r in ex.map(witness, VAUTH_WITNESSES):
            if not r["violated"]:
                raise Infra("design model Vauth_mc is vacuous: %s is unreachable" % wname)
    r = vlib.tlc(d, "Vauth_mc", "Vauth_mc.cfg", workers=8, timeout=3000)
    if r["violated"]:
        raise Infra("design model Vauth_mc violates one of its own laws (specification bug):\n" + r["out"][-3000:])
    v.add_mc(r)
    if tier == "thorough":
        # the complete operation alphabet (the quick run uses the core alphabet + one representative of the classes that
        # differ only in bytes the model does not look at)
        rf = vlib.tlc(d, "Vauth_mc", "Vauth_mc_full.cfg", workers=8, timeout=6000)
        if rf["violated"]:
            raise Infra("design model Vauth_mc (full alphabet) violates one of its own laws:\n" + rf["out"][-3000:])
        v.add_mc(rf)
        log("design run Vauth_mc/full alphabet: %d distinct states, %d transitions, all laws hold" % (rf["distinct"], rf["generated"]))
        rt = vlib.tlc(d, "Vauth_mc", "Vauth_mc_thorough.cfg", workers=8, timeout=6000)
        if rt["violated"]:
            raise Infra("design model Vauth_mc (thorough constants) violates one of its own laws:\n" + rt["out"][-3000:])
        v.add_mc(rt)
        log("design run Vauth_mc/thorough constants (6 addresses): %d distinct states, %d transitions, all laws hold" % (rt["distinct"], rt["generated"]))
    m = re.findall(r'<<"B1", (\d+), (\d+)>>', r["out"])
    if not m:
        raise Infra("design run wrote no B1 behaviours:\n" + r["out"][-2000:])
    log("design run Vauth_mc: %d distinct states, %d transitions, all laws hold, all witnesses reachable; %s operations in the alphabet, %s B1 behaviours"
        % (r["distinct"], r["generated"], m[-1][1], m[-1][0]))
    return d, int(m[-1][0])


def vauth_simulate(d, seed, sz, first_id):
    """TLC -simulate: behaviours of the model as JSON; families share all but the last operation."""
    cfg = open(os.path.join(d, "Vauth_sim.cfg")).read()
    cfg = re.sub(r"Depth = \d+", "Depth = %d" % sz["depth"], cfg)
    with open(os.path.join(d, "Vauth_sim_run.cfg"), "w") as f:
        f.write(cfg)
    r = vlib.tlc(d, "Vauth_mc", "Vauth_sim_run.cfg", workers=1, timeout=1200,
                 simulate="num=%d" % sz["sim_num"], extra=["-depth", str(sz["depth"] + 1), "-seed", str(seed)])
    fams = {}
    order = []
    for js in BEH_RE.findall(r["out"]):
        ops = json.loads(js.replace('\\"', '"'))
        key = json.dumps(ops[:-1])
        if key not in fams:
            fams[key] = []
            order.append(key)
        if ops not in fams[key]:
            fams[key].append(ops)
    out = []
    import random
    rnd = random.Random(seed)
    for key in order:
        fam = fams[key]
        rnd.shuffle(fam)
        for ops in fam[:sz["per_family"]]:
            out.append({"id": first_id + len(out), "ops": ops})
    if not out:
        raise Infra("TLC -simulate produced no behaviour:\n" + r["out"][-2000:])
    return out


def vauth_run(w, path, name, shards=SHARDS, chunk=64):
    d = w.sub(name)
    n = sum(1 for _ in open(path))
    shards = max(1, min(shards, n // chunk or 1))

    def one(i):
        out = os.path.join(d, "trace%d.ndjson" % i)
        # precondition dimension: odd shards run in a world whose vauth module account holds a stray balance
        stray = "777" if (i % 2 == 1 or shards == 1) else "0"
        txt = vlib.vh(["vauth", "-behaviours", path, "-out", out, "-shard", str(i), "-of", str(shards), "-chunk", str(chunk), "-stray", stray], cmd="vh_lanes")
        m = re.findall(r"operations executed (\d+)", txt)
        return out, int(m[-1]) if m else 0

    with ThreadPoolExecutor(max_workers=shards) as ex:
        res = list(ex.map(one, range(shards)))
    lines = []
    for o, _ in res:
        lines += vlib.read_lines(o)
    return lines, sum(n_ for _, n_ in res)


def vauth_validate(w, name, lines):
    d = w.sub(name)
    with open(os.path.join(d, "trace.ndjson"), "w") as f:
        f.write("\n".join(lines) + "\n")
    return run_trace_spec(d, "TraceVauth", VAUTH_TRACE_CFG)


def behaviour_of_line(lines, lineno):
    """(first, last) 0-based indices of the behaviour containing 1-based lineno."""
    return vlib.trace_of_line(lines, lineno)


def vauth_replay(pid, w, replay):
    vlib.build("vh_lanes")
    lines, _ = vauth_run(w, os.path.join(replay, "behaviours.ndjson"), "replay-run", shards=1)
    errs, cov, _ = vauth_validate(w, "replay-val", lines)
    if errs:
        for ln, g, dt in errs[:10]:
            log("replay: law %s/%s broken at %s" % (g, dt, lines[ln - 1][:500]))
        log("VIOLATION property=%s replay=%s" % (pid, replay))
        return 1
    log("replay: %d lines accepted by TraceVauth" % len(lines))
    return 0


@register("C16")
def check_c16(pid, tier, seed, replay):
    v = Verdict(pid, tier, seed)
    w = Work(pid)
    try:
        if replay:
            return vauth_replay(pid, w, replay)
        vlib.build("vh_lanes")
        sz = VAUTH_SIZES[tier]
        import time as _t
        t0 = _t.time()
        d, nb1 = vauth_design(v, w, tier)
        t1 = _t.time()
        b1 = [json.loads(x) for x in vlib.read_lines(os.path.join(d, "behaviours_b1.ndjson"))]
        b1.sort(key=lambda b: b["id"])
        seeds = [seed] if tier == "quick" else [seed, seed * 7919 + 1, seed * 104729 + 2]
        b2 = []
        for s in seeds:
            b2 += vauth_simulate(d, s, sz, nb1 + 1 + len(b2))
        allb = b1 + b2
        path = os.path.join(d, "behaviours.ndjson")
        with open(path, "w") as f:
            f.write("\n".join(json.dumps(b) for b in allb) + "\n")
        t2 = _t.time()
        lines, nops = vauth_run(w, path, "run", chunk=max(sz["per_family"], 48))
        t3 = _t.time()
        ngen = sum(1 for x in lines if '"ev":"Genesis"' in x)
        if ngen != len(allb):
            raise Infra("harness executed %d of %d behaviours" % (ngen, len(allb)))
        errs, cov, rt = vauth_validate(w, "val", lines)
        log("phases: design+witnesses %.0fs, simulate %.0fs, harness %.0fs, TLC judge %.0fs" % (t1 - t0, t2 - t1, t3 - t2, _t.time() - t3))
        v.cov["states"] += rt["distinct"]
        v.cov["transitions"] += rt["generated"]
        if any(g == "Domain" for _, g, _ in errs):
            raise Infra("trace contains operations outside the model: %s" % [e for e in errs if e[1] == "Domain"][:3])
        by_beh = {b["id"]: b for b in allb}
        by_sig = {}
        for ln, g, dt in errs:
            by_sig.setdefault("%s/%s" % (g, dt), []).append(ln)
        bad_behaviours = set()
        for sig, lns in sorted(by_sig.items()):
            a, b_ = behaviour_of_line(lines, lns[0])
            bid = json.loads(lines[a])["b"]
            for x in lns:
                bad_behaviours.add(json.loads(lines[x - 1])["b"])
            name = re.sub(r"[^A-Za-z0-9_.-]", "_", sig)[:80]
            rp = vlib.save_replay(pid, name, [([json.dumps(by_beh[bid])], "behaviours.ndjson"), (lines[a:b_ + 1], "trace.ndjson")],
                                  "law %s broken at step %d of this behaviour (%d occurrence(s) in the run, seed %d); behaviours.ndjson = the operations, "
                                  "trace.ndjson = what the real application did; re-run against the current tree: bin/check %s --replay <this dir>"
                                  % (sig, lns[0] - a - 1, len(lns), seed, pid))
            kinds = sorted({str(json.loads(lines[x - 1])["op"].get("sig") or json.loads(lines[x - 1])["op"].get("route")) for x in lns})
            v.violation(sig, rp, "%d step(s), signature kinds / routes involved: %s; first: %s" % (len(lns), ",".join(kinds)[:300], lines[lns[0] - 1][:700]))
        v.cov["traces_validated_against_impl"] = len(allb) - len(bad_behaviours)
        v.cov["evaluations"] = nops
        v.cov["classes"] = cov
        v.cov["behaviours"] = {"b1_enumerated": len(b1), "b2_simulated": len(b2), "operations_executed_on_real_app": nops,
                               "lines_judged_by_tlc": len(lines)}
        state_dep = ("already-proven", "cannot-pay", "proven-target", "account-exists", "sametx-proven")
        v.cov["distinct_nontrivial"] = sum(n for k, n in cov.items() if k.split(".", 2)[2].split(":")[0] in state_dep)
        v.cov["distinct_classes"] = len(cov)
        v.cov["rule"] = ("behaviours of Vauth.tla executed against the real application, one real transaction per operation: B1 = every "
                         "operation of the alphabet (3 submitters x 5 keyed targets x (23 signature kinds + 6 over-long account forms), 3 submitters x 4 keyless targets (zero address, 0xff..ff, module account, precompile) x 20 forged kinds; 3 vesting kinds x 5 targets x 25 routes incl. 18 sibling routes) after "
                         "each of 5 prefixes (the keyless / degenerate-signature classes from the initial state only); B2 = TLC -simulate behaviours; distinct_nontrivial = operations executed on the real "
                         "application whose admitted outcome depends on the state built by earlier operations of the behaviour (already proven, "
                         "submitter exhausted, proven target, account exists, proof in the same tx), counted by TraceVauth per class")
        v.cov["exhaustive"] = False
        v.cov["samples"] = [json.loads(x) for x in lines[1:3]] + [json.loads(lines[len(lines) // 2])]
        # binding self-test: (1) pretend the submitter kept his unit, (2) pretend a stored proof changed. The original and the
        # corrupted behaviour are judged in one TLC run; the corrupted line must break a law the original line does not.
        badl = {ln for ln, _, _ in errs}  # prefer lines that break no law by themselves (the corruption must be what TLC reports)
        cands = [i for i, x in enumerate(lines) if '"ev":"Op"' in x and '"out":"ok"' in x and '"op":"Submit"' in x]
        k = next((i for i in cands if i + 1 not in badl), cands[0])
        a, b_ = behaviour_of_line(lines, k + 1)
        t0 = list(lines[a:b_ + 1])
        t1 = list(t0)
        e = json.loads(t1[k - a])
        e["st"]["q"][e["op"]["sub"]] += 1
        t1[k - a] = json.dumps(e)
        cands = [i for i, x in enumerate(lines) if '"ev":"Op"' in x and '"op":"Create"' in x and json.loads(x)["i"] >= 2
                 and "valid" in json.loads(lines[i - 1])["st"]["proof"].values()]
        k2 = next((i for i in cands if i + 1 not in badl), cands[0])
        a2, b2_ = behaviour_of_line(lines, k2 + 1)
        t2o = list(lines[a2:b2_ + 1])
        t2 = list(t2o)
        e = json.loads(t2[k2 - a2])
        victim = next(n for n, tok in json.loads(t2[k2 - a2 - 1])["st"]["proof"].items() if tok == "valid")
        e["st"]["proof"][victim] = "valid2"
        t2[k2 - a2] = json.dumps(e)
        errs2, _, _ = vauth_validate(w, "selftest", t0 + t1 + t2o + t2)
        at = {ln: (g, dt) for ln, g, dt in errs2}
        o1, c1 = at.get(k - a + 1), at.get(len(t0) + k - a + 1)
        o2, c2 = at.get(len(t0) + len(t1) + k2 - a2 + 1), at.get(len(t0) + len(t1) + len(t2o) + k2 - a2 + 1)
        if c1 is None or c1 == o1 or c1[0] != "CostExact" or c2 is None or c2 == o2 or c2[0] != "ProofsFinal":
            raise Infra("binding self-test failed: corrupted holder units -> %s (original %s), corrupted stored proof -> %s (original %s)" % (c1, o1, c2, o2))
        v.cov["selftest"] = ("recorded holding of the submitter after an executed submission raised by one unit -> %s/%s; recorded proof of a "
                             "proven address replaced -> %s/%s; both rejected by TLC at the corrupted lines" % (c1 + c2))
        log("binding self-test: " + v.cov["selftest"])
        v.assumptions = [
            "balances and supply are compared in whole units of the 1e18 cost plus a remainder (< 2^31) that only ordinary fees and vesting "
            "amounts touch; submitters hold enough remainder that fees never borrow from the units",
            "signature kinds are a finite menu (genuine: canonical, malleated, upper-case hex, v+27; forged: other key, other message, random, "
            "64 / 66 bytes, missing prefix, non-hex, empty) - not all byte strings; over-long accounts: 40-byte concatenations of two "
            "universe addresses (both orders) and a 32-byte variant, signed by either key - not all byte strings either",
            "routes of a vesting-creation message: top-level, MsgExec depth 1..4, MsgExec depth 1..3 listed after harmless siblings (send, "
            "MsgExec{send}) at top level or inside an outer MsgExec, MsgGrant, same transaction as the proof; wrappers other than "
            "authz are outside the property's text",
            "genesis import/export of proofs is C18's subject, not covered here",
        ]
        return v.finish()
    finally:
        w.cleanup()
