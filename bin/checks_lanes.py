"""C07 (Lanes.tla) and C16 (Vauth.tla): the `lanes` family.

C07  design run Lanes_mc (every transaction shape of the factored space is a state; the property's sentences are
     invariants; the post-condition writes the space as B1 vectors) -> the harness builds a real transaction per
     vector and runs it through the real application in the vector's mode -> TraceLanes.tla judges every answer.
C16  design run Vauth_mc (exhaustive, small constants) -> operation sequences (TLC -simulate behaviours + a
     deterministic enumeration) are executed against the real application with real keys -> TraceVauth.tla judges
     every step (outcome class, proof store, balances in units of the submission cost, supply, account kinds)."""
import json
import os
import re
import shutil
from concurrent.futures import ThreadPoolExecutor

import vlib
from vlib import Infra, Verdict, Work, log, register

LAW_RE = re.compile(r'"LAWBROKEN\|(\d+)\|([^|"]*)\|([^"]*)"')
COV_RE = re.compile(r'"COVERAGE\|(\d+)\|(\{.*\})"')
SHARDS = 6


def parse_trace_run(out):
    errs = [(int(a), g, d) for a, g, d in LAW_RE.findall(out)]
    m = COV_RE.findall(out)
    cov, nerr = {}, None
    if m:
        nerr = int(m[-1][0])
        cov = json.loads(m[-1][1].replace('\\"', '"'))
    return errs, cov, nerr


def run_trace_spec(d, module, cfg_text, timeout=3000):
    """Validate d/trace.ndjson with a non-stopping trace spec; returns (errs, coverage, tlc result)."""
    vlib.stage_spec(d)
    cfg = module + "_run.cfg"
    with open(os.path.join(d, cfg), "w") as f:
        f.write(cfg_text)
    r = vlib.tlc(d, module, cfg, workers=1, timeout=timeout)
    errs, cov, nerr = parse_trace_run(r["out"])
    if r["violated"] or not r["ok"]:
        raise Infra("trace specification %s did not consume the trace:\n%s" % (module, r["out"][-3000:]))
    if nerr is None:
        raise Infra("trace specification %s printed no coverage line:\n%s" % (module, r["out"][-3000:]))
    if nerr != len(errs):
        raise Infra("trace specification %s: %d broken laws counted, %d reported" % (module, nerr, len(errs)))
    return errs, cov, r


# ----------------------------------------------------------------------------------------------
# C07
# ----------------------------------------------------------------------------------------------

LANES_CFG = ("SPECIFICATION TraceSpec\nCONSTANTS\n  MaxD = 0\n  PairD = 0\n  PairLeaves = {}\n  TripleElemSet = {}\n"
             "  CheckIds = %s\nINVARIANT Coverage\nPOSTCONDITION TraceAccepted\nCHECK_DEADLOCK FALSE\n")
PRE_ANTE = ("undecodable-ext", "no-messages")


def lanes_run_vectors(w, vectors_path, name, shards=SHARDS):
    """Run the harness over a vector file (sharded over processes); returns trace lines: vectors in id order, then blocks."""
    d = w.sub(name)
    n = sum(1 for _ in open(vectors_path))
    shards = max(1, min(shards, n // 200 or 1))

    def one(i):
        out = os.path.join(d, "trace%d.ndjson" % i)
        vlib.vh(["lanes", "-vectors", vectors_path, "-out", out, "-shard", str(i), "-of", str(shards)], cmd="vh_lanes")
        return out

    with ThreadPoolExecutor(max_workers=shards) as ex:
        outs = list(ex.map(one, range(shards)))
    vec, blocks = [], []
    for o in outs:
        for ln in vlib.read_lines(o):
            (vec if '"ev":"Vector"' in ln else blocks).append(ln)
    vec.sort(key=lambda ln: json.loads(ln)["vec"])
    return vec + blocks


def lanes_validate(w, name, lines, vectors_path=None):
    d = w.sub(name)
    with open(os.path.join(d, "trace.ndjson"), "w") as f:
        f.write("\n".join(lines) + "\n")
    if vectors_path:
        shutil.copy(vectors_path, os.path.join(d, "vectors.ndjson"))
    return run_trace_spec(d, "TraceLanes", LANES_CFG % ("TRUE" if vectors_path else "FALSE"))


def lanes_replay(pid, w, replay):
    """Re-run the saved vectors against the current tree and let TLC judge again."""
    vlib.build("vh_lanes")
    lines = lanes_run_vectors(w, os.path.join(replay, "vectors.ndjson"), "replay-run", shards=1)
    errs, cov, _ = lanes_validate(w, "replay-val", lines)
    if errs:
        for ln, g, dt in errs[:10]:
            log("replay: law %s/%s broken by %s" % (g, dt, lines[ln - 1][:400]))
        log("VIOLATION property=%s replay=%s" % (pid, replay))
        return 1
    log("replay: all %d vectors accepted by TraceLanes" % len(lines))
    return 0


@register("C07")
def check_c07(pid, tier, seed, replay):
    v = Verdict(pid, tier, seed)
    w = Work(pid)
    try:
        if replay:
            return lanes_replay(pid, w, replay)
        vlib.build("vh_lanes")
        # 1. design run: the whole shape space, the property's sentences as invariants, vectors written by TLC
        d = w.sub("mc")
        vlib.stage_spec(d)
        cfg = "Lanes_mc.cfg" if tier == "quick" else "Lanes_mc_thorough.cfg"
        r = vlib.tlc(d, "Lanes_mc", cfg, workers=1, timeout=3000)
        if r["violated"]:
            raise Infra("design model Lanes_mc violates one of its own laws / is vacuous (specification bug):\n" + r["out"][-3000:])
        v.add_mc(r)
        m = re.findall(r'<<"VECTORS", (\d+)>>', r["out"])
        vectors_path = os.path.join(d, "vectors.ndjson")
        if not m or not os.path.exists(vectors_path):
            raise Infra("design run wrote no vectors:\n" + r["out"][-2000:])
        nvec = int(m[-1])
        if nvec != r["distinct"]:
            raise Infra("design run: %d vectors but %d states" % (nvec, r["distinct"]))
        log("design run Lanes_mc/%s: %d shapes = %d states, all sentences of the property hold, every verdict/reason class inhabited" % (cfg, nvec, r["distinct"]))
        vectors = [json.loads(x) for x in vlib.read_lines(vectors_path)]
        # 2. B1: every vector against the real application
        lines = lanes_run_vectors(w, vectors_path, "run")
        nlines = sum(1 for x in lines if '"ev":"Vector"' in x)
        if nlines != nvec:
            raise Infra("harness answered %d of %d vectors" % (nlines, nvec))
        # 3. TLC judges
        errs, cov, rt = lanes_validate(w, "val", lines, vectors_path)
        v.cov["states"] += rt["distinct"]
        v.cov["transitions"] += rt["generated"]
        domain = [e for e in errs if e[1] == "Domain"]
        if domain:
            raise Infra("trace does not answer the enumerated vectors: line %d %s" % (domain[0][0], domain[0][2]))
        by_sig = {}
        for ln, g, dt in errs:
            by_sig.setdefault("%s/%s" % (g, dt), []).append(ln)
        for sig, lns in sorted(by_sig.items()):
            bad = [lines[i - 1] for i in lns[:20]]
            ids = [json.loads(x).get("vec") for x in bad if '"ev":"Vector"' in x]
            vecs = [json.dumps(vectors[i - 1]) for i in ids if i]
            if not vecs:  # a Block line: replay the vectors of that block
                b = json.loads(bad[0])
                vecs = [json.dumps(x) for x in vectors[b["from"] - 1:b["to"]] if x["shape"]["mode"] == "deliver"]
            name = re.sub(r"[^A-Za-z0-9_.-]", "_", sig)[:80]
            rp = vlib.save_replay(pid, name, [(vecs, "vectors.ndjson"), (bad, "trace.ndjson")],
                                  "law %s broken by %d vector(s) (first ones saved); vectors.ndjson = the shapes, trace.ndjson = what the real "
                                  "application answered; re-run against the current tree: bin/check %s --replay <this dir>" % (sig, len(lns), pid))
            v.violation(sig, rp, "%d vector(s), e.g. %s" % (len(lns), bad[0][:600]))
        ok_vectors = nvec - sum(1 for ln, g, dt in errs if '"ev":"Vector"' in lines[ln - 1])
        v.cov["traces_validated_against_impl"] = ok_vectors
        v.cov["evaluations"] = nvec
        v.cov["classes"] = cov
        nontriv = sum(1 for x in vectors if x["expect"]["reason"] not in PRE_ANTE)
        v.cov["distinct_nontrivial"] = nontriv
        v.cov["rule"] = ("one real transaction per shape x mode of the model's factored shape space (DESIGN.md C07); non-trivial = vectors "
                         "that reach the composed ante handler (not refused by decoding / the empty-message rule); classes = "
                         "lane.model-verdict.real-outcome.mode counted by TraceLanes")
        v.cov["exhaustive"] = not errs
        v.cov["samples"] = [json.loads(x) for x in (lines[0], lines[len(lines) // 3], lines[nvec - 1])]
        lenient = cov.get("eth.any.accepted.recheck", 0) + cov.get("cosmos.any.accepted.recheck", 0)
        v.cov["recheck_only_acceptances"] = lenient
        # 4. binding self-test: flip the recorded verdict of one vector whose verdict the model constrains
        k = next(i for i, x in enumerate(vectors) if x["expect"]["verdict"] == "accept" and x["expect"]["lane"] == "eth")
        j = next(i for i, x in enumerate(vectors) if x["expect"]["verdict"] == "reject" and x["expect"]["reason"] == "eth-nested-in-exec")
        sub = []
        for n_, i in enumerate(sorted(set(list(range(0, 50)) + [k, j]))):
            e = json.loads(lines[i])
            if i in (k, j):
                e["got"]["accepted"] = not e["got"]["accepted"]
            sub.append((i, json.dumps(e)))
        errs2, _, _ = lanes_validate(w, "selftest", [x for _, x in sub])
        flipped = {n_ + 1 for n_, (i, _) in enumerate(sub) if i in (k, j)}
        if {e[0] for e in errs2} != flipped:
            raise Infra("binding self-test failed: flipped verdicts at lines %s, TLC rejected lines %s" % (sorted(flipped), sorted(e[0] for e in errs2)))
        v.cov["selftest"] = "flipped the recorded verdict of vectors %d and %d: TLC rejected exactly those (%s)" % (
            k + 1, j + 1, "; ".join("%s/%s" % (g, dt) for _, g, dt in errs2))
        log("binding self-test: " + v.cov["selftest"])
        v.assumptions = [
            "re-check mode: a shape refused in check mode never reaches re-check (same bytes), so its re-check outcome is unconstrained ('any'); "
            "%d such shapes are in fact accepted by the real re-check (validate-basic skipped by design)" % lenient,
            "wrappers other than authz MsgExec / MsgGrant (gov proposals, ICA host) are outside the property's text and the shape alphabet",
            "Cosmos-lane acceptance rules not stated by the property (signatures required in every mode, dynamic-fee extension option only) "
            "are documented SDK/app rules, named as such in Lanes.tla",
            "lane markers are observable only where events are returned (simulate, deliver); check/re-check are judged on the verdict alone",
        ]
        return v.finish()
    finally:
        w.cleanup()
