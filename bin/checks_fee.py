"""C09: FeeMarket.tla.  Design level: TLC exhaustive on a small domain (FeeMarket_mc) + Apalache over unbounded integers
(FeeMarketBig: base fees to 2^256, gas to 2^64).  Binding: (a) the REAL x/feemarket EndBlock evaluated on sampled inputs
(boundaries + seeded random, big numbers included); the returned values are judged by Apalache (big) and TLC (small) against
the specification's NextOk; (b) block histories of the real application validated by TraceEthTx.tla: every block's next base
fee follows the recurrence on the gas the model computes, no transaction below the price floor is executed, EndBlock never panics."""
import concurrent.futures
import json
import os
import shutil

import vlib
import checks_ethtx
import fm_samples
from vlib import Infra, Verdict, Work, log, register

FOCUS_TX = ["FeeMarket", "BaseFee", "EndPanic", "Admit"]
SIZES = {"quick": dict(n=400, chunk=100, par=6, tx=dict(traces=30, blocks=8)),
         "thorough": dict(n=6000, chunk=100, par=12, tx=dict(traces=600, blocks=10))}


def run_design(v, w, tier):
    d = w.sub("mc")
    vlib.stage_spec(d)
    cfg = "FeeMarket_mc.cfg" if tier == "quick" else "FeeMarket_mc_thorough.cfg"
    r = vlib.tlc(d, "FeeMarket_mc", cfg, workers=16, timeout=7000)
    v.add_mc(r)
    if r["violated"]:
        raise Infra("design model FeeMarket_mc violates a law (specification bug):\n" + r["out"][-3000:])
    log("design run FeeMarket_mc/%s: %d distinct states, %d transitions, all laws hold" % (cfg, r["distinct"], r["generated"]))
    if tier != "quick":
        # every proposal (all minimum gas prices, all carried base fees) at every block end, on the small domain
        r3 = vlib.tlc(d, "FeeMarket_mc", "FeeMarket_mc_thorough_gov.cfg", workers=16, timeout=3000)
        v.add_mc(r3)
        if r3["violated"]:
            raise Infra("design model FeeMarket_mc (all proposals) violates a law (specification bug):\n" + r3["out"][-3000:])
        log("design run FeeMarket_mc/all proposals: %d distinct states, %d transitions" % (r3["distinct"], r3["generated"]))
    # named deviation: fee market end-blocker before the gov end-blocker must break the floor after a parameter change
    r2 = vlib.tlc(d, "FeeMarket_mc", "FeeMarket_mc_dev_order.cfg", workers=4, timeout=1800)
    if not r2["violated"]:
        raise Infra("FeeMarket_mc cannot see the end-blocker order deviation: the governance part of the design model is vacuous")
    res, out = vlib.apalache(d, "FeeMarketBig", "AllLaws", timeout=1200)
    if res != "ok":
        raise Infra("FeeMarketBig: a symbolic law fails (specification bug):\n" + out[-3000:])
    v.cov["obligations"] = 8
    v.cov["discharged"] = 8
    log("Apalache: 8 arithmetic laws hold for all base fees 0..2^256, gas 0..2^64-1, max gas -1..2^63-1, min price 0..2^256")
    # vacuity / sanity: the formula the code used before the repair of D4 is undefined exactly where Defined is false;
    # and a law that is false must be refuted (Apalache really decides): unchanged-below-target is false
    with open(os.path.join(d, "FeeMarketNeg.tla"), "w") as f:
        f.write("---- MODULE FeeMarketNeg ----\nEXTENDS FeeMarketBig\nFalseLaw == vUsed < T => StepBig(vB, vUsed, vMaxGas) = vB\n====\n")
    res, out = vlib.apalache(d, "FeeMarketNeg", "FalseLaw", timeout=600)
    if res != "violated":
        raise Infra("Apalache accepted a false law: the symbolic check is vacuous")


def check_chunk(args):
    d, name, samples = args
    fm_samples.write_module(os.path.join(d, name + ".tla"), name, samples, True)
    res, out = vlib.apalache(d, name, "SamplesOk", timeout=1500, tag="apa-" + name)
    return name, res


def locate(d, name, samples, want=3):
    """Find offending samples of a rejected chunk by splitting (at most `want` of them: that many are reported)."""
    if len(samples) == 1:
        return samples
    mid = len(samples) // 2
    bad = []
    for i, part in enumerate((samples[:mid], samples[mid:])):
        if len(bad) >= want:
            break
        n2 = "%s_%d" % (name, i)
        _, res = check_chunk((d, n2, part))
        if res == "violated":
            bad += locate(d, n2, part, want - len(bad))
    return bad


def judge_samples(v, pid, w, samples, sz, seed, label):
    """Apalache judges all samples in parallel chunks; TLC judges the small ones as well. Returns list of offending samples."""
    d = w.sub("samples-" + label)
    vlib.stage_spec(d)
    chunks = [(d, "FS_%s_%d" % (label, i), samples[i:i + sz["chunk"]]) for i in range(0, len(samples), sz["chunk"])]
    bad = []
    with concurrent.futures.ThreadPoolExecutor(max_workers=sz["par"]) as ex:
        for name, res in ex.map(check_chunk, chunks):
            if res == "violated" and len(bad) < 5:
                part = [c for c in chunks if c[1] == name][0][2]
                bad += locate(d, name, part)
    small = [s for s in samples if s["small"] and s["r"] != "panic"]
    fm_samples.write_module(os.path.join(d, "FSmall.tla"), "FSmall", small, False)
    with open(os.path.join(d, "fs.cfg"), "w") as f:
        f.write("SPECIFICATION ZSpec\nINVARIANT SamplesOk\n")
    r = vlib.tlc(d, "FSmall", "fs.cfg", workers=1, timeout=1200)
    if r["violated"] and not bad:
        # TLC and Apalache evaluate the same operator on the small samples: they must agree
        raise Infra("TLC rejects small samples that Apalache accepts (specification/tool problem):\n" + r["out"][-2000:])
    return bad, len(small)


@register("C09")
def check_fee(pid, tier, seed, replay):
    v = Verdict(pid, tier, seed)
    w = Work(pid)
    try:
        sz = SIZES[tier]
        if replay:
            if os.path.exists(os.path.join(replay, "programs.json")):
                r = checks_ethtx.validate_dir_copy(w, replay, FOCUS_TX)
                bad = bool(r["err"])
            else:
                samples = fm_samples.load(os.path.join(replay, "samples.ndjson"))
                b, _ = judge_samples(v, pid, w, samples, sz, seed, "replay")
                bad = bool(b)
            if bad:
                log("VIOLATION property=%s replay=%s" % (pid, replay))
                return 1
            log("replay: accepted")
            return 0
        vlib.build("vh_fm")
        vlib.build("vh")
        run_design(v, w, tier)
        # (a) the real function on sampled inputs
        d = w.sub("gen")
        sp = os.path.join(d, "samples.ndjson")
        vlib.vh(["-seed", str(seed), "-n", str(sz["n"]), "-out", sp], cmd="vh_fm")
        samples = fm_samples.load(sp)
        bad, nsmall = judge_samples(v, pid, w, samples, sz, seed, "run")
        for i, s in enumerate(bad[:5]):
            rp = vlib.save_replay(pid, "sample_%d_%d" % (seed, i), [([json.dumps(s)], "samples.ndjson")],
                                  "the real fee-market EndBlock returned r for (b, used, maxGas, minP) where FeeMarket.tla demands another value (or no failure)")
            sig = "Sample/panic" if s["r"] == "panic" else "Sample/next-base-fee"
            v.violation(sig, rp, json.dumps(s)[:400])
        v.cov["evaluations"] += len(samples)
        v.cov["traces_validated_against_impl"] += len(samples) - len(bad)
        big = sum(1 for s in samples if not s["small"])
        undefined = sum(1 for s in samples if int(s["maxGas"]) in (0, 1))
        unrepresentable = sum(1 for s in samples if s["r"] == "panic")
        v.cov["classes"] = {"samples": len(samples), "big-number": big, "small(TLC too)": nsmall, "zero-target": undefined,
                            "result-above-2^256(refusal allowed)": unrepresentable}
        # binding self-test: one wrong value must be refuted
        st = [dict(s) for s in samples[300:320] if s["r"] != "panic"]
        st[3]["r"] = str(int(st[3]["r"]) + 1)
        ds = w.sub("selftest")
        vlib.stage_spec(ds)
        _, res = check_chunk((ds, "FSelf", st))
        if res != "violated":
            raise Infra("binding self-test failed: a sample with a corrupted result was accepted")
        log("binding self-test: corrupted sample refuted by Apalache")
        v.cov["selftest"] = "sample with result+1 refuted by Apalache"
        # (b) histories
        covtx, first = checks_ethtx.ethtx_binding(v, pid, w, FOCUS_TX, sz["tx"], seed, corrupt_fn=corrupt_tx, tag="tx")
        v.cov["classes"].update(covtx)
        v.cov["distinct_nontrivial"] = len(set((s["b"], s["used"], s["maxGas"], s["minP"]) for s in samples if s["used"] != "0" and s["b"] != "0"))
        v.cov["rule"] = ("(a) inputs (base fee, gas used, max gas, min gas price) = boundary grid (base fees 0,1,7,8,9,1e3,1e9,2^63-1,2^63,2^64,2^128,"
                         "2^200,2^255,(2^256-1)/2,2^256-1000 x max gas -1,0,1,2,3,4,5,10,1e3,3e7,2^62+1,2^63-1 x fills around the target) + seeded random; "
                         "evaluated by the real EndBlock; non-trivial = distinct inputs with base fee > 0 and gas used > 0; "
                         "(b) seeded block histories of the real application with arbitrary fill levels")
        v.cov["samples"] = samples[200:203]
        v.assumptions = ["go-ethereum's CalcBaseFee is part of the code under test (no reference implementation is trusted)",
                         "results above 2^256-1 are not representable; the code may refuse there (base fees within 12.5% of 2^256 are unreachable: no transaction can pay them)",
                         "Apalache/Z3 and TLC evaluate the TLA+ arithmetic correctly"]
        return v.finish()
    finally:
        w.cleanup()


def corrupt_tx(pid, lines):
    out = list(lines)
    for i, ln in enumerate(out):
        e = json.loads(ln)
        if e["ev"] == "End" and not e["panic"]:
            e["nextBaseFee"] += 1
            out[i] = json.dumps(e)
            return out, i + 1
    raise Infra("self-test: no End line")
