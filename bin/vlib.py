"""Shared machinery of /verif/bin/check: building the harness against /repo's working tree,
running TLC (design runs and trace validation), known findings, evidence files, verdicts."""
import fcntl
import json
import os
import re
import shutil
import subprocess
import sys
import time

ROOT = os.path.dirname(os.path.dirname(os.path.abspath(__file__)))
SPEC = os.path.join(ROOT, "spec")
HARNESS = os.path.join(ROOT, "harness")
WORK = os.path.join(ROOT, ".work")
VH = os.path.join(WORK, "vh")
GOENV = dict(os.environ, GOFLAGS="-mod=mod", GOPROXY="off", GOSUMDB="off", GOTOOLCHAIN="local")


REGISTRY = {}


def register(*pids):
    def deco(fn):
        for p in pids:
            REGISTRY[p] = fn
        return fn
    return deco


class Infra(Exception):
    """Infrastructure problem: exit 2, never a verdict."""


def log(*a):
    print(*a, flush=True)


def sh(cmd, cwd=None, timeout=None, env=None, check=True):
    p = subprocess.run(cmd, cwd=cwd, timeout=timeout, env=env, stdout=subprocess.PIPE, stderr=subprocess.STDOUT, text=True)
    if check and p.returncode != 0:
        raise Infra("command failed (%d): %s\n%s" % (p.returncode, " ".join(cmd), p.stdout[-4000:]))
    return p


REPO = os.environ.get("VERIF_REPO", "/repo")


def _modfile_args():
    """Development aid only (seeded-change experiments in a scratch worktree): VERIF_REPO=<dir> builds the
    harness against <dir> instead of /repo through an alternate go.mod.  Registered checks never set it."""
    if REPO == "/repo":
        shutil.copy("/repo/go.sum", os.path.join(HARNESS, "go.sum"))
        return []
    tag = re.sub(r"[^A-Za-z0-9]", "_", REPO)
    alt = os.path.join(WORK, "alt%s.mod" % tag)
    with open(os.path.join(HARNESS, "go.mod")) as f:
        mod = f.read().replace("=> /repo", "=> " + REPO)
    with open(alt, "w") as f:
        f.write(mod)
    shutil.copy(os.path.join(REPO, "go.sum"), alt[:-4] + ".sum")
    return ["-modfile=" + alt]


def bin_path(cmd="vh"):
    if REPO == "/repo":
        return os.path.join(WORK, cmd)
    return os.path.join(WORK, cmd + re.sub(r"[^A-Za-z0-9]", "_", REPO))


def build(cmd="vh", race=False):
    """(Re)build harness command ./cmd/<cmd> from the repository's current working tree with -tags verif."""
    os.makedirs(WORK, exist_ok=True)
    with open(os.path.join(WORK, "build.lock"), "w") as lk:
        fcntl.flock(lk, fcntl.LOCK_EX)
        extra = _modfile_args()
        t0 = time.time()
        out = bin_path(cmd) + ("-race" if race else "")
        args = ["go", "build"] + extra + ["-tags", "verif"] + (["-race"] if race else []) + ["-o", out, "./cmd/" + cmd]
        p = sh(args, cwd=HARNESS, env=GOENV, timeout=2400, check=False)
        if p.returncode != 0:
            raise Infra("harness does not build against %s:\n%s" % (REPO, p.stdout[-6000:]))
        log("harness %s built against %s in %.1fs" % (cmd, REPO, time.time() - t0))
    return out


class Work:
    """Scratch directory under .work, removed on exit."""

    def __init__(self, name):
        self.dir = os.path.join(WORK, "%s-%d" % (name, os.getpid()))
        shutil.rmtree(self.dir, ignore_errors=True)
        os.makedirs(self.dir)

    def sub(self, name):
        d = os.path.join(self.dir, name)
        os.makedirs(d, exist_ok=True)
        return d

    def cleanup(self):
        shutil.rmtree(self.dir, ignore_errors=True)


def vh(args, timeout=3000, cmd="vh"):
    p = sh([bin_path(cmd)] + args, timeout=timeout, env=GOENV, check=False)
    if p.returncode != 0:
        raise Infra("driver failed (%d): vh %s\n%s" % (p.returncode, " ".join(args), p.stdout[-4000:]))
    return p.stdout


def stage_spec(d):
    for f in os.listdir(SPEC):
        if f.endswith(".tla") or f.endswith(".cfg"):
            shutil.copy(os.path.join(SPEC, f), d)


TLC_STATES = re.compile(r"(\d+) states generated, (\d+) distinct states found")


def tlc(d, module, cfg, workers=1, timeout=1200, extra=None, simulate=None):
    """Run TLC in directory d. Returns dict(out, generated, distinct, ok, violated(bool), error)."""
    cmd = ["tlc", "-workers", str(workers), "-metadir", os.path.join(d, "meta-%s-%d" % (module, int(time.time() * 1000) % 100000)),
           "-config", cfg]
    if simulate:
        cmd += ["-simulate", simulate]
    if extra:
        cmd += extra
    cmd += [module + ".tla"]
    env = dict(os.environ)
    env["JAVA_TOOL_OPTIONS"] = (env.get("JAVA_TOOL_OPTIONS", "") + " -Xss256m").strip()
    try:
        p = subprocess.run(["timeout", str(timeout)] + cmd, cwd=d, env=env, stdout=subprocess.PIPE, stderr=subprocess.STDOUT, text=True)
    except Exception as e:  # pragma: no cover
        raise Infra("cannot run tlc: %s" % e)
    out = p.stdout
    for f in os.listdir(d):
        if "_TTrace_" in f:
            os.remove(os.path.join(d, f))
    if p.returncode == 124:
        raise Infra("TLC timed out after %ds on %s/%s" % (timeout, module, cfg))
    m = TLC_STATES.findall(out)
    gen, dist = (int(m[-1][0]), int(m[-1][1])) if m else (0, 0)
    r = {"out": out, "generated": gen, "distinct": dist, "rc": p.returncode}
    r["violated"] = ("is violated" in out or ("Postcondition" in out and "is false" in out)
                     or ("The invariant of" in out and "is equal to FALSE" in out))
    r["ok"] = "No error has been found" in out or (simulate and p.returncode == 0)
    if not r["ok"] and not r["violated"]:
        raise Infra("TLC error on %s/%s:\n%s" % (module, cfg, out[-5000:]))
    return r


def apalache(d, module, inv, timeout=900, init="Init", nxt="Stutter", length=0, tag="apa"):
    """Run Apalache in d. Returns "ok" | "violated"; anything else raises Infra."""
    out_dir = os.path.join(d, "%s-%d" % (tag, int(time.time() * 1000) % 1000000))
    cmd = ["timeout", str(timeout), "apalache-mc", "check", "--init=" + init, "--next=" + nxt, "--inv=" + inv,
           "--length=%d" % length, "--out-dir=" + out_dir, module + ".tla"]
    p = subprocess.run(cmd, cwd=d, stdout=subprocess.PIPE, stderr=subprocess.STDOUT, text=True)
    out = p.stdout
    if "The outcome is: NoError" in out:
        return "ok", out
    if "The outcome is: Error" in out and "invariant" in out and "violated" in out:
        return "violated", out
    raise Infra("Apalache failed on %s/%s (rc %d):\n%s" % (module, inv, p.returncode, out[-3000:]))


ERR_RE = re.compile(r'<<\s*"LAWBROKEN",\s*(\d+),\s*"([^"]*)",\s*"([^"]*)"\s*>>')  # TLC wraps long tuples over several lines
COV_RE = re.compile(r'<<"COVERAGE", "(\{.*?\})", (\d+), "SKIPPED", (<<.*>>)>>')


def validate_trace(d, module, cfg_text, timeout=1800):
    """Trace validation: d contains trace.ndjson (+ data files). Returns dict(accepted, err=(line, group, detail) | None, coverage, admitted, skipped, states)."""
    stage_spec(d)
    cfg = module + "_run.cfg"
    with open(os.path.join(d, cfg), "w") as f:
        f.write(cfg_text)
    r = tlc(d, module, cfg, workers=1, timeout=timeout)
    res = {"states": r["generated"], "distinct": r["distinct"], "out": r["out"], "err": None, "coverage": {}, "admitted": 0, "skipped": []}
    m = ERR_RE.findall(r["out"])
    if m:
        res["err"] = (int(m[-1][0]), m[-1][1], m[-1][2])
    c = COV_RE.findall(r["out"])
    if c:
        res["coverage"] = json.loads(c[-1][0].replace('\\"', '"'))
        res["admitted"] = int(c[-1][1])
        res["skipped"] = re.findall(r'<<(\d+), "([^"]*)", "([^"]*)">>', c[-1][2])
    res["accepted"] = r["ok"] and not m
    if not res["accepted"] and not m:
        raise Infra("trace rejected without a named law:\n" + r["out"][-4000:])
    return res


def read_lines(path):
    with open(path) as f:
        return f.read().splitlines()


def trace_of_line(lines, lineno, start_ev="Genesis"):
    """Lines (1-based lineno) -> (first, last) indices (0-based, inclusive) of the trace containing it."""
    i = lineno - 1
    a = i
    while a > 0 and ('"ev":"%s"' % start_ev) not in lines[a]:
        a -= 1
    b = i + 1
    while b < len(lines) and ('"ev":"%s"' % start_ev) not in lines[b]:
        b += 1
    return a, b - 1


# ----------------------------------------------------------------------------------------------
# known findings
# ----------------------------------------------------------------------------------------------

def known_findings():
    """KNOWN_FINDINGS.txt: lines 'finding: property=<id> signature=<sig> <text>' and 'fixed: property=<id> <commit> <text>'."""
    out = {}
    p = os.path.join(ROOT, "KNOWN_FINDINGS.txt")
    if not os.path.exists(p):
        return out
    for ln in read_lines(p):
        m = re.match(r"finding:\s+property=(\S+)\s+signature=(\S+)\s+(.*)", ln)
        if m:
            out.setdefault(m.group(1), {})[m.group(2)] = m.group(3)
    return out


class Verdict:
    def __init__(self, pid, tier, seed):
        self.pid, self.tier, self.seed = pid, tier, seed
        self.violations = []  # (signature, replay path, text)
        self.t0 = time.time()
        self.cov = {"states": 0, "transitions": 0, "traces_validated_against_impl": 0, "samples": [], "evaluations": 0,
                    "distinct_nontrivial": 0, "rule": "", "exhaustive": False}
        self.assumptions = []

    def add_mc(self, r):
        self.cov["states"] += r["distinct"]
        self.cov["transitions"] += r["generated"]

    def violation(self, signature, replay, text):
        self.violations.append((signature, replay, text))

    def finish(self, level="model_checking"):
        known = known_findings().get(self.pid, {})
        new = 0
        seen = set()
        for sig, replay, text in self.violations:
            if sig in known:
                if sig not in seen:
                    log("KNOWN-FINDING: property=%s %s -- %s" % (self.pid, sig, known[sig]))
                seen.add(sig)
            else:
                new += 1
                log("VIOLATION property=%s replay=%s" % (self.pid, replay))
                log("  law: %s :: %s" % (sig, text))
        ev = {"property_id": self.pid, "tier": self.tier, "seed": self.seed, "level": level, "coverage": self.cov,
              "assumptions": self.assumptions, "wall_s": round(time.time() - self.t0, 1), "violations": new,
              "known_findings_reproduced": sorted(seen)}
        evdir = os.path.join(ROOT, "evidence") if REPO == "/repo" else os.path.join(WORK, "evidence-alt")
        os.makedirs(evdir, exist_ok=True)
        with open(os.path.join(evdir, self.pid + ".json"), "w") as f:
            json.dump(ev, f, indent=1)
        log("%s %s: states=%d transitions=%d impl_traces=%d evaluations=%d nontrivial=%d wall=%.0fs violations=%d" % (
            self.pid, self.tier, self.cov["states"], self.cov["transitions"], self.cov["traces_validated_against_impl"],
            self.cov["evaluations"], self.cov["distinct_nontrivial"], time.time() - self.t0, new))
        return 1 if new else 0


def save_replay(pid, name, files, note):
    d = os.path.join(ROOT, "replays", pid, name)
    shutil.rmtree(d, ignore_errors=True)
    os.makedirs(d)
    for src, dst in files:
        if isinstance(src, (list, tuple)):
            with open(os.path.join(d, dst), "w") as f:
                f.write("\n".join(src) + "\n")
        else:
            shutil.copy(src, os.path.join(d, dst))
    with open(os.path.join(d, "README.txt"), "w") as f:
        f.write(note + "\n")
    return d
