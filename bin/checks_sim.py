"""C08: Simulation.tla (design: requests are frame conditions over committed versions, answers are functions of the version at the
requested height, predictions are discharged by the next block) + TraceSimulation.tla (the real application: every store digested
around every request, repeatability, predictions delivered)."""
import json
import os
import re

import vlib
from vlib import Infra, Verdict, Work, log, register

SIZES = {"quick": dict(traces=40, blocks=8, chunk=60), "thorough": dict(traces=1500, blocks=12, chunk=150)}
WITNESSES = ["W_NoDischarge", "W_NoEstimateDischarge", "W_NoHistorical"]


def cfg(known):
    return ("SPECIFICATION TraceSpec\nCONSTANT Focus <- AllGroups\nCONSTANT Known = {%s}\nINVARIANT Coverage\nPOSTCONDITION TraceAccepted\nCHECK_DEADLOCK FALSE\n"
            % ", ".join('"%s"' % k for k in known))


def run_design(v, w, tier):
    d = w.sub("mc")
    vlib.stage_spec(d)
    c = "Simulation_mc.cfg" if tier == "quick" else "Simulation_mc_thorough.cfg"
    r = vlib.tlc(d, "Simulation", c, workers=16, timeout=7000)
    v.add_mc(r)
    if r["violated"]:
        raise Infra("Simulation.tla violates a law (specification bug):\n" + r["out"][-2000:])
    for wn in WITNESSES:
        with open(os.path.join(d, "w.cfg"), "w") as f:
            f.write("SPECIFICATION Spec\nCONSTANT Calls = {0, 1}\nCONSTANT Gases = {1, 3}\nCONSTANT MaxBlocks = 3\nCONSTANT MaxReqs = 2\nINVARIANT %s\nCHECK_DEADLOCK FALSE\n" % wn)
        r2 = vlib.tlc(d, "Simulation", "w.cfg", workers=4, timeout=900)
        if not r2["violated"]:
            raise Infra("Simulation.tla is vacuous: witness %s unreachable" % wn)
    log("design run Simulation/%s: %d distinct states, %d transitions, laws hold, %d witnesses reachable" % (c, r["distinct"], r["generated"], len(WITNESSES)))


def split(lines):
    out, cur = [], []
    for ln in lines:
        if '"ev":"SimGenesis"' in ln and cur:
            out.append(cur)
            cur = []
        cur.append(ln)
    if cur:
        out.append(cur)
    return out


def validate(w, name, lines, known):
    d = w.sub(name)
    with open(os.path.join(d, "trace.ndjson"), "w") as f:
        f.write("\n".join(lines) + "\n")
    r = vlib.validate_trace(d, "TraceSimulation", cfg(known))
    m = re.findall(r'<<"DEVIATIONS", \{(.*?)\}>>', r["out"])
    r["used"] = re.findall(r'"([^"]+)"', m[-1]) if m else []
    return r


@register("C08")
def check_sim(pid, tier, seed, replay):
    v = Verdict(pid, tier, seed)
    w = Work(pid)
    try:
        listed = sorted(vlib.known_findings().get(pid, {}).keys())
        if replay:
            r = validate(w, "replay", vlib.read_lines(os.path.join(replay, "trace.ndjson")), [])
            if r["err"]:
                log("replay: rejected at line %d: %s / %s" % r["err"])
                log("VIOLATION property=%s replay=%s" % (pid, replay))
                return 1
            log("replay: accepted")
            return 0
        vlib.build("vh_simq")
        run_design(v, w, tier)
        sz = SIZES[tier]
        d = w.sub("gen")
        vlib.vh(["-seed", str(seed), "-traces", str(sz["traces"]), "-blocks", str(sz["blocks"]), "-out", d], cmd="vh_simq", timeout=7000)
        hists = split(vlib.read_lines(os.path.join(d, "trace.ndjson")))
        stats = json.load(open(os.path.join(d, "stats.json")))
        cov = {}
        accepted = 0
        used_devs = {}
        idx = 0
        ci = 0
        while idx < len(hists):
            part = hists[idx:idx + sz["chunk"]]
            idx += sz["chunk"]
            ci += 1
            guard = 0
            known = []
            while part and guard < 6:
                guard += 1
                flat = [ln for t in part for ln in t]
                r = validate(w, "val%d_%d" % (ci, guard), flat, known)
                v.cov["states"] += r["states"]
                v.cov["transitions"] += r["states"]
                if r["err"] is None:
                    for k, n in r["coverage"].items():
                        cov[k] = cov.get(k, 0) + n
                    accepted += len(part)
                    for u in r["used"]:
                        used_devs.setdefault(u, None)
                    break
                line, group, detail = r["err"]
                sig = "%s/%s" % (group, detail)
                n = 0
                for ti, t in enumerate(part):
                    if line <= n + len(t):
                        break
                    n += len(t)
                bad = part[ti]
                tid = json.loads(bad[0]).get("tid", "hist")
                rp = vlib.save_replay(pid, tid + "_" + group, [(bad, "trace.ndjson")],
                                      "law %s broken at line %d (seed %d); re-check: bin/check %s --replay <this dir>" % (sig, line - n, seed, pid))
                if sig in listed and sig not in known:
                    # a recorded finding: validate again with its named deviation enabled, so that everything else is still checked
                    used_devs[sig] = (rp, "history %s line %d: %s" % (tid, line - n, bad[line - 1 - n][:300]))
                    known = known + [sig]
                    continue
                v.violation(sig, rp, "history %s line %d: %s" % (tid, line - n, bad[line - 1 - n][:300]))
                accepted += ti
                part = part[ti + 1:]
                if len(set(x[0] for x in v.violations)) < len(v.violations):
                    part = []
        for sig, info in used_devs.items():
            if info:
                v.violation(sig, info[0], info[1])
        v.cov["traces_validated_against_impl"] += accepted
        v.cov["evaluations"] += sum(n for k, n in stats.items() if k.startswith("req."))
        # self-test: a request that changed a store; a prediction that does not hold
        t = list(hists[0])
        done = 0
        for i, ln in enumerate(t):
            e = json.loads(ln)
            if e["ev"] == "SimReq" and done == 0:
                e["post"] = "0" * 24
                t[i] = json.dumps(e)
                done = 1
                break
        rs = validate(w, "selftest1", t, [])
        t2 = list(hists[0])
        ok2 = False
        for h in hists:
            t2 = list(h)
            delivered_ok = set()
            for ln in t2:
                e = json.loads(ln)
                if e["ev"] == "SimBlock":
                    delivered_ok |= {x["id"] for x in e["delivered"] if x["code"] == 0}
            for i, ln in enumerate(t2):
                e = json.loads(ln)
                if e["ev"] == "SimPredict" and e["what"] == "call" and e["id"] in delivered_ok:
                    e["result"]["gasUsed"] += 1
                    t2[i] = json.dumps(e)
                    ok2 = True
                    break
            if ok2:
                break
        rs2 = validate(w, "selftest2", t2, listed)
        if rs["err"] is None or (ok2 and rs2["err"] is None):
            raise Infra("binding self-test failed: a corrupted request line / prediction was accepted")
        log("binding self-test: altered store digest rejected with %s/%s; altered prediction rejected with %s" % (rs["err"][1], rs["err"][2], rs2["err"][1:] if rs2["err"] else "n/a"))
        v.cov["selftest"] = "store digest after a request altered -> %s/%s; predicted gas + 1 -> %s" % (rs["err"][1], rs["err"][2], rs2["err"][1:] if rs2["err"] else "n/a")
        v.cov["classes"] = dict(cov, **{"gen." + k: n for k, n in stats.items()})
        v.cov["distinct_nontrivial"] = cov.get("first", 0)
        v.cov["rule"] = ("seeded histories of the real application: between blocks 2-5 requests of kinds eth_call (menu contracts, creations, self-destructs, ERC-20 precompile "
                         "transfers, a 63/64-rule gas-dependent contract, a block-context reader), estimateGas, traceTx / traceBlock of the last block, CheckTx / ReCheckTx / "
                         "Simulate with trial execution, gRPC queries of evm / feemarket / cpc / vauth at the latest and at historical heights, each issued again later; every "
                         "key-value pair of every mounted store and the commit id digested before and after each request; predictable calls delivered first in the next block; "
                         "non-trivial = distinct (request, height) pairs")
        v.cov["samples"] = [json.loads(x) for x in hists[0][1:4]]
        v.assumptions = ["'predictable' = the generator's straight-line programs over constants that read neither block context nor balances",
                         "the mempool's volatile check state is allowed to change (it is not committed state)", "digests are SHA-256 over all stores of the root multistore"]
        return v.finish()
    finally:
        w.cleanup()
