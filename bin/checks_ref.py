"""C02: TraceRefEquiv.tla - differential trace validation: every transaction executed by the real evermint application and by
go-ethereum's own state transition over its own state database, from the same pre-state and block context; TLC judges the
permitted-difference relation.  Design level: EthTx_mc (shared with C04-C06) states the evermint transition."""
import json
import os

import vlib
import checks_ethtx
from vlib import Infra, Verdict, Work, log, register

SIZES = {"quick": dict(traces=120, txs=6, chunk=150), "thorough": dict(traces=4000, txs=8, chunk=250)}
CFG = "SPECIFICATION TraceSpec\nINVARIANT Coverage\nPOSTCONDITION TraceAccepted\nCHECK_DEADLOCK FALSE\n"


def split(lines):
    out, cur = [], []
    for ln in lines:
        if '"ev":"RefGenesis"' in ln and cur:
            out.append(cur)
            cur = []
        cur.append(ln)
    if cur:
        out.append(cur)
    return out


def validate(w, name, lines):
    d = w.sub(name)
    with open(os.path.join(d, "trace.ndjson"), "w") as f:
        f.write("\n".join(lines) + "\n")
    return vlib.validate_trace(d, "TraceRefEquiv", CFG)


@register("C02")
def check_ref(pid, tier, seed, replay):
    v = Verdict(pid, tier, seed)
    w = Work(pid)
    try:
        if replay:
            r = validate(w, "replay", vlib.read_lines(os.path.join(replay, "trace.ndjson")))
            if r["err"]:
                log("replay: rejected at line %d: %s / %s" % r["err"])
                log("VIOLATION property=%s replay=%s" % (pid, replay))
                return 1
            log("replay: accepted")
            return 0
        vlib.build("vh_ref")
        checks_ethtx.run_mc(v, pid, w, "quick")
        sz = SIZES[tier]
        d = w.sub("gen")
        vlib.vh(["-seed", str(seed), "-traces", str(sz["traces"]), "-txs", str(sz["txs"]), "-out", d], cmd="vh_ref", timeout=7000)
        hists = split(vlib.read_lines(os.path.join(d, "trace.ndjson")))
        cov = {}
        accepted = 0
        idx = 0
        ci = 0
        while idx < len(hists):
            part = hists[idx:idx + sz["chunk"]]
            idx += sz["chunk"]
            ci += 1
            guard = 0
            while part and guard < 4:
                guard += 1
                flat = [ln for t in part for ln in t]
                r = validate(w, "val%d_%d" % (ci, guard), flat)
                v.cov["states"] += r["states"]
                v.cov["transitions"] += r["states"]
                if r["err"] is None:
                    for k, n in r["coverage"].items():
                        cov[k] = cov.get(k, 0) + n
                    accepted += len(part)
                    break
                line, group, detail = r["err"]
                n = 0
                for ti, t in enumerate(part):
                    if line <= n + len(t):
                        break
                    n += len(t)
                bad = part[ti]
                tid = json.loads(bad[0]).get("tid", "hist")
                rp = vlib.save_replay(pid, tid, [(bad, "trace.ndjson")],
                                      "evermint and go-ethereum differ: %s/%s at line %d (seed %d); re-check: bin/check %s --replay <this dir>" % (group, detail, line - n, seed, pid))
                e = json.loads(bad[line - 1 - n])
                brief = {"desc": e.get("desc"), "evm": {k: e.get("evm", {}).get(k) for k in ("class", "gasUsed", "ret")},
                         "ref": {k: e.get("ref", {}).get(k) for k in ("class", "gasUsed", "ret")}}
                v.violation("%s/%s" % (group, detail), rp, "history %s tx %s: %s" % (tid, e.get("i"), json.dumps(brief)))
                accepted += ti
                part = part[ti + 1:]
                if len(set(x[0] for x in v.violations)) < len(v.violations):
                    part = []
        v.cov["traces_validated_against_impl"] += accepted
        v.cov["evaluations"] += sum(len(t) - 1 for t in hists)
        # binding self-test
        t = list(hists[0])
        for i, ln in enumerate(t):
            e = json.loads(ln)
            if e["ev"] == "RefTx" and not e["panic"] and e["evm"]["class"] == e["ref"]["class"] and not e["evm"]["class"].startswith("rejected"):
                e["evm"]["gasUsed"] += 1
                t[i] = json.dumps(e)
                break
        rs = validate(w, "selftest", t)
        if rs["err"] is None:
            raise Infra("binding self-test failed: a differential trace with an altered gas value was accepted")
        log("binding self-test: altered gas value rejected with %s/%s" % (rs["err"][1], rs["err"][2]))
        v.cov["selftest"] = "evermint gas used + 1 rejected by law %s/%s" % (rs["err"][1], rs["err"][2])
        v.cov["classes"] = cov
        v.cov["distinct_nontrivial"] = sum(n for k, n in cov.items() if k.startswith("class.") and not k.startswith("class.rejected"))
        v.cov["rule"] = ("seeded random bytecode (storage reads/writes, BALANCE/EXTCODESIZE/EXTCODEHASH of warm/cold/nonexistent/zero/precompile addresses, "
                         "environment opcodes, LOG0-4, CALL/CALLCODE/DELEGATECALL/STATICCALL with value and explicit gas, CREATE/CREATE2 with constructors that "
                         "revert / self-destruct / return empty code, SELFDESTRUCT, REVERT, INVALID, RETURN) in 4-6 genesis contracts with pre-set storage; "
                         "legacy / access-list / dynamic-fee txs with random access lists, gas limits 21000..400000, values, one tx per block over evolving state; "
                         "non-trivial = transactions that executed (not rejected) on both sides")
        v.cov["samples"] = [json.loads(x)["desc"] for x in hists[0][1:4]]
        v.assumptions = ["the EVM interpreter (shared by both executions) is trusted as reference; what is compared is the state transition around it and the StateDB",
                         "generated bytecode is straight-line (no loops); precompile calls into custom precompiles are excluded (no reference exists) and covered by C10-C12",
                         "transactions go-ethereum rejects as invalid are only required not to execute"]
        return v.finish()
    finally:
        w.cleanup()
